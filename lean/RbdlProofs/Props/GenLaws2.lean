import RbdlProofs.Lemmas.Alg16
import Rbdl.Gen.Spatial2
import Rbdl.GenUse2
import Rbdl.Gen.Kin
import Rbdl.Iter
/-
  Translator tier, typed extension (tools/cxx2lean_typed.py): the definitions generated from the
  Eigen-level C++ code (lean/Rbdl/Gen/Spatial2.lean, …; regenerated on every run, Eigen operations
  expanded to components by the translator, library calls inlined from their own definitions) equal the
  hand-written model for all inputs.  Normalisation proofs (`alg` unfolding + `grind`): they survive
  harmless rewrites of the C++ and fail for a wrong formula.
-/
namespace Rbdl.GenLaws2
open Lean.Grind Rbdl
variable {α : Type} [Field α]

/-! ### `SpatialTransform` -/
theorem xtInverse_eq (X : XT α) : Gen.xtInverse X = X.inverse := by
  unfold Gen.xtInverse; alg_ext
theorem xtMul_eq (X Y : XT α) : Gen.xtMul X Y = X * Y := by
  unfold Gen.xtMul; alg_ext
/-- `X *= Y` for distinct objects -/
theorem xtMulAssign_eq (X Y : XT α) : Gen.xtMulAssign X Y = X * Y := by
  unfold Gen.xtMulAssign; alg_ext
/-- `X *= X`: the right operand is the object being updated -/
theorem xtMulAssignSelf_eq (X : XT α) : Gen.xtMulAssignSelf X = X * X := by
  unfold Gen.xtMulAssignSelf; alg_ext
theorem xtToMatrix_eq (X : XT α) : Gen.xtToMatrix X = X.toMatrix := by
  unfold Gen.xtToMatrix; alg_ext
theorem xtToMatrixAdjoint_eq (X : XT α) : Gen.xtToMatrixAdjoint X = X.toMatrixAdjoint := by
  unfold Gen.xtToMatrixAdjoint; alg_ext
theorem xtToMatrixTranspose_eq (X : XT α) : Gen.xtToMatrixTranspose X = X.toMatrixTranspose := by
  unfold Gen.xtToMatrixTranspose; alg_ext
theorem xtApplyAdjoint_eq (X : XT α) (f : SV α) : Gen.xtApplyAdjoint X f = X.applyAdjoint f := by
  unfold Gen.xtApplyAdjoint; alg_ext
theorem xtApplyRBI_eq (X : XT α) (I : RBI α) : Gen.xtApplyRBI X I = X.applyRBI I := by
  unfold Gen.xtApplyRBI; alg_ext
theorem xtApplyTransposeRBI_eq (X : XT α) (I : RBI α) :
    Gen.xtApplyTransposeRBI X I = X.applyTransposeRBI I := by
  unfold Gen.xtApplyTransposeRBI; alg_ext

/-! ### `SpatialRigidBodyInertia` -/
theorem rbiMulVec_eq (I : RBI α) (v : SV α) : Gen.rbiMulVec I v = I * v := by
  unfold Gen.rbiMulVec; alg_ext
theorem rbiAdd_eq (A B : RBI α) : Gen.rbiAdd A B = A + B := by
  unfold Gen.rbiAdd; alg_ext
/-- `createFromMatrix` overwrites every field: the result does not depend on the receiver -/
theorem rbiCreateFromMatrix_eq (I0 : RBI α) (M : SM α) : Gen.rbiCreateFromMatrix I0 M = RBI.ofMatrix M := by
  unfold Gen.rbiCreateFromMatrix; alg_ext
theorem rbiToMatrix_eq (I : RBI α) : Gen.rbiToMatrix I = I.toMatrix := by
  unfold Gen.rbiToMatrix; alg_ext
/-- `setSpatialMatrix` writes all 36 entries: the result does not depend on the matrix passed in -/
theorem rbiSetSpatialMatrix_eq (I : RBI α) (M0 : SM α) : Gen.rbiSetSpatialMatrix I M0 = I.toMatrix := by
  unfold Gen.rbiSetSpatialMatrix; alg_ext
theorem rbiCreateFromMassComInertiaC_eq (mass : α) (com : V3 α) (Ic : M3 α) :
    Gen.rbiCreateFromMassComInertiaC mass com Ic = RBI.ofMassComInertiaC mass com Ic := by
  unfold Gen.rbiCreateFromMassComInertiaC; alg_ext
/-- the constructor `(mass, com_mass, inertia)` reads the lower triangle -/
theorem rbiOfMassComInertia_eq (mass : α) (h : V3 α) (Im : M3 α) :
    Gen.rbiOfMassComInertia mass h Im = RBI.ofMat mass h Im := by
  unfold Gen.rbiOfMassComInertia; alg_ext

/-! ### `Body::Join`, `Body::Separate`, `TransformInertiaToBodyFrame` (Body.h), `parallel_axis`

The generated `bodyJoin` / `bodySeparate` contain the guards of the C++ (`if (…) return;` = unchanged
receiver, `throw` = `none`) and every library call inlined (`createFromMassComInertiaC`, `toMatrix`,
`VectorCrossMatrix`, `TransformInertiaToBodyFrame`, `parallel_axis`, the `Body` constructor). -/

theorem parallelAxis_eq (I : M3 α) (m : α) (c : V3 α) :
    Gen.parallelAxis I m c = Body.parallelAxis I m c := by
  unfold Gen.parallelAxis Body.parallelAxis; alg_ext

theorem bodyTransformInertiaToBodyFrame_eq (X : XT α) (b : Body α) :
    Gen.bodyTransformInertiaToBodyFrame X b = Body.transformInertiaToBodyFrame X b := by
  unfold Gen.bodyTransformInertiaToBodyFrame Body.transformInertiaToBodyFrame Body.parallelAxis; alg_ext

/-- `A == Matrix3d::Zero()` entry by entry -/
theorem M3.eq_zero_iff (A : M3 α) : A = M3.zero ↔
    (A.m00 = 0 ∧ A.m01 = 0 ∧ A.m02 = 0 ∧ A.m10 = 0 ∧ A.m11 = 0 ∧ A.m12 = 0 ∧ A.m20 = 0 ∧ A.m21 = 0
      ∧ A.m22 = 0) := by
  constructor
  · intro h; subst h; exact ⟨rfl, rfl, rfl, rfl, rfl, rfl, rfl, rfl, rfl⟩
  · intro ⟨h0, h1, h2, h3, h4, h5, h6, h7, h8⟩
    ext <;> simp only [alg] <;> assumption

section
variable [DecidableEq α]

/-- `Body::Join`, all three ways out (early return, library error, joined body) -/
theorem bodyJoin_eq (a o : Body α) (X : XT α) : Gen.bodyJoin a X o = a.join X o := by
  unfold Gen.bodyJoin Body.join
  simp only [M3.eq_zero_iff]
  split
  · rfl
  · split
    · rfl
    · simp only [Body.transformInertiaToBodyFrame, Body.parallelAxis, Option.some.injEq, Body.mk.injEq]
      refine ⟨trivial, ?_, ?_, trivial⟩
      · ext <;> simp only [alg] <;> grind
      · ext <;> simp only [alg] <;> grind

/-- `Body::Separate`, all three ways out (early return, massless remainder, remainder with mass);
    the C++ has no error exit, the model's `Option` is always `some` -/
theorem bodySeparate_eq (a o : Body α) (X : XT α) :
    some (Gen.bodySeparate a X o) = a.separate X o := by
  unfold Gen.bodySeparate Body.separate
  simp only [M3.eq_zero_iff]
  split
  · rfl
  · split
    · simp only [Body.transformInertiaToBodyFrame, Body.parallelAxis, Option.some.injEq, Body.mk.injEq]
      refine ⟨trivial, ?_, ?_, trivial⟩
      · ext <;> simp only [alg] <;> grind
      · ext <;> simp only [alg] <;> grind
    · simp only [Body.transformInertiaToBodyFrame, Body.parallelAxis, Option.some.injEq, Body.mk.injEq]
      refine ⟨trivial, ?_, ?_, trivial⟩
      · ext <;> simp only [alg] <;> grind
      · ext <;> simp only [alg] <;> grind

/-- what the driver executes for `join` / `separate` / `joinsep` -/
theorem genUse_bodyJoin_eq (a o : Body α) (X : XT α) : GenUse.bodyJoin a X o = a.join X o :=
  bodyJoin_eq a o X
theorem genUse_bodySeparate_eq (a o : Body α) (X : XT α) : GenUse.bodySeparate a X o = a.separate X o :=
  bodySeparate_eq a o X
end


/-! ### `jcalc`, `jcalc_X_lambda_S` (Joint.cc) per built-in joint type

`Rbdl/Gen/Joints2.lean`: the two routines specialised to each joint type (the `if` chain decided by the
declared type; `jcalc_XJ`, `Xrot`, `Xtrans`, `Quaternion::toMatrix`, `operator*` inlined).  They equal the
closed forms `GenUse.jcalcClosed` / `jcalcXlambdaSClosed`, and the model routines `Rbdl.jcalc` /
`Rbdl.jcalcXlambdaS` are exactly "write the closed form back into the workspace". -/

section
open GenUse
attribute [ext] Gen.JcalcOut
/-- (local name: `Rbdl.M63.ext` is declared by other lemma files of the library) -/
@[ext] theorem m63_ext {a b : M63 α} (h0 : a.c0 = b.c0) (h1 : a.c1 = b.c1) (h2 : a.c2 = b.c2) : a = b := by
  cases a; cases b; simp_all

/-- components, then the joint formulas of `Rbdl/Joint.lean`, then `grind` -/
macro "jc_ext" : tactic =>
  `(tactic| (ext <;> simp only [alg, M63.mulV3, M63.setW, sphericalS, translationS,
      eulerZYX_E, eulerXYZ_E, eulerYXZ_E, eulerZXY_E, eulerZYX_S, eulerXYZ_S, eulerYXZ_S, eulerZXY_S,
      eulerZYX_cJ, eulerXYZ_cJ, eulerYXZ_cJ, eulerZXY_cJ] <;> grind))

theorem jcalcRevoluteX_eq (a : JcalcIn α) : jcalcGen .revoluteX a = jcalcClosed .revoluteX a := by
  simp only [jcalcGen, jcalcClosed, JcalcIn.app, Gen.jcalcRevoluteX, Option.some.injEq]; jc_ext
theorem jcalcRevoluteY_eq (a : JcalcIn α) : jcalcGen .revoluteY a = jcalcClosed .revoluteY a := by
  simp only [jcalcGen, jcalcClosed, JcalcIn.app, Gen.jcalcRevoluteY, Option.some.injEq]; jc_ext
theorem jcalcRevoluteZ_eq (a : JcalcIn α) : jcalcGen .revoluteZ a = jcalcClosed .revoluteZ a := by
  simp only [jcalcGen, jcalcClosed, JcalcIn.app, Gen.jcalcRevoluteZ, Option.some.injEq]; jc_ext
theorem jcalcHelical_eq (a : JcalcIn α) : jcalcGen .helical a = jcalcClosed .helical a := by
  simp only [jcalcGen, jcalcClosed, JcalcIn.app, Gen.jcalcHelical, Option.some.injEq]; jc_ext
theorem jcalcRevolute_eq (a : JcalcIn α) : jcalcGen .revolute a = jcalcClosed .revolute a := by
  simp only [jcalcGen, jcalcClosed, JcalcIn.app, Gen.jcalcRevolute, Option.some.injEq]; jc_ext
theorem jcalcPrismatic_eq (a : JcalcIn α) : jcalcGen .prismatic a = jcalcClosed .prismatic a := by
  simp only [jcalcGen, jcalcClosed, JcalcIn.app, Gen.jcalcPrismatic, Option.some.injEq]; jc_ext
theorem jcalcSpherical_eq (a : JcalcIn α) : jcalcGen .spherical a = jcalcClosed .spherical a := by
  simp only [jcalcGen, jcalcClosed, JcalcIn.app, Gen.jcalcSpherical, Option.some.injEq]; jc_ext
theorem jcalcEulerZYX_eq (a : JcalcIn α) : jcalcGen .eulerZYX a = jcalcClosed .eulerZYX a := by
  simp only [jcalcGen, jcalcClosed, JcalcIn.app, Gen.jcalcEulerZYX, Option.some.injEq]; jc_ext
theorem jcalcEulerXYZ_eq (a : JcalcIn α) : jcalcGen .eulerXYZ a = jcalcClosed .eulerXYZ a := by
  simp only [jcalcGen, jcalcClosed, JcalcIn.app, Gen.jcalcEulerXYZ, Option.some.injEq]; jc_ext
theorem jcalcEulerYXZ_eq (a : JcalcIn α) : jcalcGen .eulerYXZ a = jcalcClosed .eulerYXZ a := by
  simp only [jcalcGen, jcalcClosed, JcalcIn.app, Gen.jcalcEulerYXZ, Option.some.injEq]; jc_ext
theorem jcalcEulerZXY_eq (a : JcalcIn α) : jcalcGen .eulerZXY a = jcalcClosed .eulerZXY a := by
  simp only [jcalcGen, jcalcClosed, JcalcIn.app, Gen.jcalcEulerZXY, Option.some.injEq]; jc_ext
theorem jcalcTranslationXYZ_eq (a : JcalcIn α) : jcalcGen .translationXYZ a = jcalcClosed .translationXYZ a := by
  simp only [jcalcGen, jcalcClosed, JcalcIn.app, Gen.jcalcTranslationXYZ, Option.some.injEq]; jc_ext

/-- `jcalc` through the generated definitions = the closed forms, for every joint type -/
theorem jcalcGen_eq (jt : JT) (a : JcalcIn α) : jcalcGen jt a = jcalcClosed jt a := by
  cases jt
  case revoluteX => exact jcalcRevoluteX_eq a
  case revoluteY => exact jcalcRevoluteY_eq a
  case revoluteZ => exact jcalcRevoluteZ_eq a
  case helical => exact jcalcHelical_eq a
  case revolute => exact jcalcRevolute_eq a
  case prismatic => exact jcalcPrismatic_eq a
  case spherical => exact jcalcSpherical_eq a
  case eulerZYX => exact jcalcEulerZYX_eq a
  case eulerXYZ => exact jcalcEulerXYZ_eq a
  case eulerYXZ => exact jcalcEulerYXZ_eq a
  case eulerZXY => exact jcalcEulerZXY_eq a
  case translationXYZ => exact jcalcTranslationXYZ_eq a
  all_goals rfl

theorem jcalcXlambdaSRevoluteX_eq (a : JcalcIn α) : jcalcXlambdaSGen .revoluteX a = jcalcXlambdaSClosed .revoluteX a := by
  simp only [jcalcXlambdaSGen, jcalcXlambdaSClosed, JcalcIn.app, Gen.jcalcXlambdaSRevoluteX, Option.some.injEq]; jc_ext
theorem jcalcXlambdaSRevoluteY_eq (a : JcalcIn α) : jcalcXlambdaSGen .revoluteY a = jcalcXlambdaSClosed .revoluteY a := by
  simp only [jcalcXlambdaSGen, jcalcXlambdaSClosed, JcalcIn.app, Gen.jcalcXlambdaSRevoluteY, Option.some.injEq]; jc_ext
theorem jcalcXlambdaSRevoluteZ_eq (a : JcalcIn α) : jcalcXlambdaSGen .revoluteZ a = jcalcXlambdaSClosed .revoluteZ a := by
  simp only [jcalcXlambdaSGen, jcalcXlambdaSClosed, JcalcIn.app, Gen.jcalcXlambdaSRevoluteZ, Option.some.injEq]; jc_ext
theorem jcalcXlambdaSHelical_eq (a : JcalcIn α) : jcalcXlambdaSGen .helical a = jcalcXlambdaSClosed .helical a := by
  simp only [jcalcXlambdaSGen, jcalcXlambdaSClosed, JcalcIn.app, Gen.jcalcXlambdaSHelical, Option.some.injEq]; jc_ext
theorem jcalcXlambdaSRevolute_eq (a : JcalcIn α) : jcalcXlambdaSGen .revolute a = jcalcXlambdaSClosed .revolute a := by
  simp only [jcalcXlambdaSGen, jcalcXlambdaSClosed, JcalcIn.app, Gen.jcalcXlambdaSRevolute, Option.some.injEq]; jc_ext
theorem jcalcXlambdaSPrismatic_eq (a : JcalcIn α) : jcalcXlambdaSGen .prismatic a = jcalcXlambdaSClosed .prismatic a := by
  simp only [jcalcXlambdaSGen, jcalcXlambdaSClosed, JcalcIn.app, Gen.jcalcXlambdaSPrismatic, Option.some.injEq]; jc_ext
theorem jcalcXlambdaSSpherical_eq (a : JcalcIn α) : jcalcXlambdaSGen .spherical a = jcalcXlambdaSClosed .spherical a := by
  simp only [jcalcXlambdaSGen, jcalcXlambdaSClosed, JcalcIn.app, Gen.jcalcXlambdaSSpherical, Option.some.injEq]; jc_ext
theorem jcalcXlambdaSEulerZYX_eq (a : JcalcIn α) : jcalcXlambdaSGen .eulerZYX a = jcalcXlambdaSClosed .eulerZYX a := by
  simp only [jcalcXlambdaSGen, jcalcXlambdaSClosed, JcalcIn.app, Gen.jcalcXlambdaSEulerZYX, Option.some.injEq]; jc_ext
theorem jcalcXlambdaSEulerXYZ_eq (a : JcalcIn α) : jcalcXlambdaSGen .eulerXYZ a = jcalcXlambdaSClosed .eulerXYZ a := by
  simp only [jcalcXlambdaSGen, jcalcXlambdaSClosed, JcalcIn.app, Gen.jcalcXlambdaSEulerXYZ, Option.some.injEq]; jc_ext
theorem jcalcXlambdaSEulerYXZ_eq (a : JcalcIn α) : jcalcXlambdaSGen .eulerYXZ a = jcalcXlambdaSClosed .eulerYXZ a := by
  simp only [jcalcXlambdaSGen, jcalcXlambdaSClosed, JcalcIn.app, Gen.jcalcXlambdaSEulerYXZ, Option.some.injEq]; jc_ext
theorem jcalcXlambdaSEulerZXY_eq (a : JcalcIn α) : jcalcXlambdaSGen .eulerZXY a = jcalcXlambdaSClosed .eulerZXY a := by
  simp only [jcalcXlambdaSGen, jcalcXlambdaSClosed, JcalcIn.app, Gen.jcalcXlambdaSEulerZXY, Option.some.injEq]; jc_ext
theorem jcalcXlambdaSTranslationXYZ_eq (a : JcalcIn α) : jcalcXlambdaSGen .translationXYZ a = jcalcXlambdaSClosed .translationXYZ a := by
  simp only [jcalcXlambdaSGen, jcalcXlambdaSClosed, JcalcIn.app, Gen.jcalcXlambdaSTranslationXYZ, Option.some.injEq]; jc_ext

/-- `jcalc_X_lambda_S` through the generated definitions = the closed forms, for every joint type -/
theorem jcalcXlambdaSGen_eq (jt : JT) (a : JcalcIn α) : jcalcXlambdaSGen jt a = jcalcXlambdaSClosed jt a := by
  cases jt
  case revoluteX => exact jcalcXlambdaSRevoluteX_eq a
  case revoluteY => exact jcalcXlambdaSRevoluteY_eq a
  case revoluteZ => exact jcalcXlambdaSRevoluteZ_eq a
  case helical => exact jcalcXlambdaSHelical_eq a
  case revolute => exact jcalcXlambdaSRevolute_eq a
  case prismatic => exact jcalcXlambdaSPrismatic_eq a
  case spherical => exact jcalcXlambdaSSpherical_eq a
  case eulerZYX => exact jcalcXlambdaSEulerZYX_eq a
  case eulerXYZ => exact jcalcXlambdaSEulerXYZ_eq a
  case eulerYXZ => exact jcalcXlambdaSEulerYXZ_eq a
  case eulerZXY => exact jcalcXlambdaSEulerZXY_eq a
  case translationXYZ => exact jcalcXlambdaSTranslationXYZ_eq a
  all_goals rfl


theorem upd_self {β : Type} (f : Nat → β) (k : Nat) : upd f k (f k) = f := by
  funext j; simp only [upd]; split <;> simp_all

variable [DecidableEq α]

/-- the model's `jcalc` writes exactly the closed form of the joint's type back into the workspace -/
theorem jcalc_eq_writeJ (m : ModelS α) (w : WS α) (i : Nat) (st : QS α) (qd : VecN α)
    (o : Gen.JcalcOut α) (h : jcalcClosed (m.joint i).jt (jcalcInOf m w i st qd) = some o) :
    jcalc m w i st qd = writeJ w i o := by
  unfold jcalc
  generalize hj : (m.joint i).jt = jt at h
  cases jt <;> simp only [jcalcClosed, jcalcInOf, Option.some.injEq, reduceCtorEq] at h <;> subst h <;>
    simp only [hj, writeJ, upd_self, jcalcXJ]

theorem jcalcXlambdaS_eq_writeJ (m : ModelS α) (w : WS α) (i : Nat) (st : QS α) (qd : VecN α)
    (o : Gen.JcalcOut α) (h : jcalcXlambdaSClosed (m.joint i).jt (jcalcInOf m w i st qd) = some o) :
    jcalcXlambdaS m w i st = writeJ w i o := by
  unfold jcalcXlambdaS
  generalize hj : (m.joint i).jt = jt at h
  cases jt <;> simp only [jcalcXlambdaSClosed, jcalcInOf, Option.some.injEq, reduceCtorEq] at h <;> subst h <;>
    simp only [hj, writeJ, upd_self, jcalcXJ]

/-- the model's `jcalc` = the definitions generated from Joint.cc, written back (every built-in joint
    type: RevoluteX/Y/Z, Revolute, Prismatic, Helical, Spherical, the four Euler joints, TranslationXYZ) -/
theorem jcalc_eq_gen (m : ModelS α) (w : WS α) (i : Nat) (st : QS α) (qd : VecN α)
    (o : Gen.JcalcOut α) (h : jcalcGen (m.joint i).jt (jcalcInOf m w i st qd) = some o) :
    jcalc m w i st qd = writeJ w i o :=
  jcalc_eq_writeJ m w i st qd o (by rw [← jcalcGen_eq]; exact h)

theorem jcalcXlambdaS_eq_gen (m : ModelS α) (w : WS α) (i : Nat) (st : QS α) (qd : VecN α)
    (o : Gen.JcalcOut α) (h : jcalcXlambdaSGen (m.joint i).jt (jcalcInOf m w i st qd) = some o) :
    jcalcXlambdaS m w i st = writeJ w i o :=
  jcalcXlambdaS_eq_writeJ m w i st qd o (by rw [← jcalcXlambdaSGen_eq]; exact h)

/-- the generated dispatch is defined exactly for the built-in joint types -/
theorem jcalcGen_isSome_iff (jt : JT) (a : JcalcIn α) :
    (jcalcGen jt a).isSome ↔ jt ∈ [JT.revoluteX, .revoluteY, .revoluteZ, .helical, .revolute, .prismatic,
      .spherical, .eulerZYX, .eulerXYZ, .eulerYXZ, .eulerZXY, .translationXYZ] := by
  cases jt <;> simp [jcalcGen]
end


/-! ### `CalcAngularVelocityfromMatrix` (Kinematics.cc) -/

theorem max0_congr [LT α] [DecidableLT α] (a b : α) (e : a = b) :
    (if 0 < a then a else 0) = (if 0 < b then b else 0) := by rw [e]
theorem lt_congr_arg [LT α] (f : α → α) (t a b : α) (e : a = b) : (t < f a) ↔ (t < f b) := by rw [e]

/-- `CalcAngularVelocityfromMatrix` (Kinematics.cc): the generated definition, with `sqrt`, `atan2`,
    `atan` instantiated by the model's transcendental parameters, is the model's
    `angularVelocityFromMatrix`; the only property of `atan` used is `atan 1 * 4 = π` (the C++ computes π
    that way).  The proof follows the three-way branch and the three values of the index `k`;
    arithmetic inside `sqrt (…)`, the tolerance test and the constant are compared by normalisation. -/
theorem calcAngularVelocityFromMatrix_eq [DecidableEq α] [LT α] [DecidableLT α] (T : Iter.Transc α) (atan : α → α)
    (h : atan 1 * 4 = T.pi) (R : M3 α) :
    Gen.calcAngularVelocityFromMatrix T.sqrt T.atan2 atan R = Iter.angularVelocityFromMatrix T R := by
  unfold Gen.calcAngularVelocityFromMatrix Iter.angularVelocityFromMatrix
  extract_lets tol l preFactor PI n k k2 nn max0 n0 n1 n2 k1 kk sg
  have hPI : PI = T.pi := by simp only [PI]; grind
  have e0 : n.x = n0 := by
    show T.sqrt _ = T.sqrt _
    exact congrArg T.sqrt (max0_congr _ _ (by first | rfl | grind))
  have e1 : n.y = n1 := by
    show T.sqrt _ = T.sqrt _
    exact congrArg T.sqrt (max0_congr _ _ (by first | rfl | grind))
  have e2 : n.z = n2 := by
    show T.sqrt _ = T.sqrt _
    exact congrArg T.sqrt (max0_congr _ _ (by first | rfl | grind))
  split
  next hc =>
    have hc' : tol < nn := (lt_congr_arg T.sqrt tol _ _ (by first | rfl | (simp only [V3.dot, l]; grind))).mp hc
    rw [if_pos hc']
    ext <;> first | rfl | (simp only [alg, preFactor, nn, l]; grind)
  next hc =>
    have hc' : ¬ tol < nn := fun h' => hc ((lt_congr_arg T.sqrt tol _ _ (by first | rfl | (simp only [V3.dot, l]; grind))).mpr h')
    rw [if_neg hc']
    split
    next hd =>
      rw [if_pos (show 0 < R.m00 ∧ 0 < R.m11 ∧ 0 < R.m22 by grind)]
      ext <;> first | rfl | (simp only [alg]; grind)
    next hd =>
      rw [if_neg (show ¬ (0 < R.m00 ∧ 0 < R.m11 ∧ 0 < R.m22) by grind)]
      rw [hPI]
      have ek1 : k = k1 := by
        show (if n.x < n.y then 1 else 0) = (if n0 < n1 then 1 else 0)
        rw [e0, e1]
      have ek : k2 = kk := by
        show (if (if k = 0 then n.x else if k = 1 then n.y else n.z) < n.z then 2 else k) =
             (if (if k1 = 1 then n1 else n0) < n2 then 2 else k1)
        rw [ek1, e0, e1, e2]
        by_cases h01 : n0 < n1
        · have : k1 = 1 := if_pos h01
          simp only [this]; rfl
        · have : k1 = 0 := if_neg h01
          simp only [this]; rfl
      have hk1 : k1 = 0 ∨ k1 = 1 := by
        by_cases h01 : n0 < n1
        · exact Or.inr (if_pos h01)
        · exact Or.inl (if_neg h01)
      have hk : kk = 0 ∨ kk = 1 ∨ kk = 2 := by
        by_cases h2 : (if k1 = 1 then n1 else n0) < n2
        · exact Or.inr (Or.inr (if_pos h2))
        · have e : kk = k1 := if_neg h2
          rcases hk1 with h1 | h1
          · exact Or.inl (e.trans h1)
          · exact Or.inr (Or.inl (e.trans h1))
      rw [ek, e0, e1, e2]
      rcases hk with hk | hk | hk <;> rw [hk] <;> ext <;> simp [sg, hk, M3.get, alg]

end Rbdl.GenLaws2
