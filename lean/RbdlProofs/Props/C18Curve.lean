import RbdlProofs.Lemmas.L18CInv
import RbdlProofs.Lemmas.L18CEx
import RbdlProofs.Lemmas.L18CFacEx
import RbdlProofs.Lemmas.L18CXform
import RbdlProofs.Lemmas.L18CNegAny
/-
  C18 at curve level — `SmoothSegmentedFunction` as a whole (sections + region test + look-up):
  well-formedness and its preservation by `shift` / `scale`, evaluation semantics of shifted / scaled /
  mirrored curves including the linear extrapolation, C2 at every breakpoint, monotonicity,
  pre-image property of the inverse, getters.

  `Curve.WF`, `Curve.eval`, `Curve.evalD`, `Curve.RootAt`, `Curve.IsRoot`, `Curve.inverse`,
  `Curve.scaleRaw`, `Curve.mirror` are defined in `Lemmas/L18CBasic.lean`, `Curve.CornerBuilt` in
  `Lemmas/L18CC2.lean`, `Curve.C2` in `Lemmas/L18CXform.lean`.  The root finder `calcU` is not modelled: `u` is a parameter constrained by
  `RootAt` / `IsRoot` (0 ≤ u ≤ 1 and x(u) = x in the section found by `calcIndex`).
  `eval` / `evalD` return `none` exactly when `calcIndex` throws.
  Non-vacuity: `exFL` = `createFiberForceLengthCurve(0, 0.7, 0.2, 2/0.7, 0.75)` over `Rat`.
-/
set_option linter.unusedSectionVars false
namespace Rbdl.C18Curve
open Lean.Grind Std Rbdl.Geom Rbdl.L18C

section curve
variable {α : Type} [Field α] [Inhabited α] [LE α] [LT α] [LawfulOrderLT α] [IsLinearOrder α]
  [OrderedRing α] [DecidableLT α] [DecidableLE α] [DecidableEq α]

/-! ### 1. well-formedness is preserved by `shift` and `scale` -/

/-- 1a : `shift` preserves `WF` -/
theorem WF_shift (c : Curve α) (dx dy : α) (h : c.WF) : (c.shift dx dy).WF :=
  L18C.WF_shift c dx dy h

/-- 1b : `scale` with a positive x factor preserves `WF` -/
theorem WF_scale_pos (c c' : Curve α) (sx sy : α) (h : c.WF) (hs : 0 < sx) (hc : c.scale sx sy = some c') :
    c'.WF := by
  rw [scale_pos_eq c c' sx sy hc (by grind)]; exact WF_scaleRaw_pos c sx sy hs h

/-- 1c : `scale` with a NEGATIVE x factor preserves `WF` (the mirrored curve: sections and control
    points reversed, end data swapped) -/
theorem WF_scale_neg (c c' : Curve α) (sx sy : α) (h : c.WF) (hs : sx < 0) (hc : c.scale sx sy = some c') :
    c'.WF := by
  rw [scale_neg_eq c c' sx sy hc hs]; exact WF_mirror_scaleRaw_neg c sx sy hs h

/-- 1d : inside `[x0, x1]` the look-up of a well-formed curve never throws, and the selected section
    contains `x` -/
theorem calcIndex_total (c : Curve α) (h : c.WF) (x : α) (h0 : c.x0 ≤ x) (h1 : x ≤ c.x1) :
    ∃ i, c.calcIndex x = some i ∧ i < c.nseg ∧ (c.segX i).p0 ≤ x ∧ x ≤ (c.segX i).p5 := by
  obtain ⟨i, hi⟩ := calcIndex_isSome c h x h0 h1
  obtain ⟨a, b, d⟩ := (calcIndex_iff c h x i).mp hi
  exact ⟨i, hi, a, b, by rcases d with d | ⟨_, d⟩ <;> grind⟩

example : exFL.WF := exFL_WF
example : exFL.WF ∧ (0:Rat) < 2 ∧ exFL.scale 2 3 = some (exFL.scaleRaw 2 3) := ⟨exFL_WF, by decide, exFL_scale_pos⟩
example : exFL.WF ∧ (-2:Rat) < 0 ∧ exFL.scale (-2) 3 = some (exFL.scaleRaw (-2) 3).mirror :=
  ⟨exFL_WF, by decide, exFL_scale_neg⟩
example : exFL.x0 ≤ (3/2 : Rat) ∧ (3/2 : Rat) ≤ exFL.x1 := by decide +kernel


/-! ### 1'. the curve factories produce well-formed curves

  `h : Factory.f … = some c` says that the call was accepted (all argument checks of the C++ passed and
  `calcQuinticBezierCornerControlPoints` did not throw).  Where an extra hypothesis appears, the
  statement without it is FALSE: a machine-checked accepted call with a non-well-formed result follows
  the theorem. -/

/-- 1e : `createFiberForceLengthCurve`, whole documented domain; its sections are corner sections in
    the sense of 3 (hence the curve is C2 everywhere) when the second corner is non-degenerate -/
theorem fiberForceLength_WF (eZero eIso kLow kIso curviness : α) (c : Curve α)
    (h : Factory.fiberForceLength eZero eIso kLow kIso curviness = some c) : c.WF :=
  (fiberForceLength_spec eZero eIso kLow kIso curviness c h).1
theorem fiberForceLength_corner (eZero eIso kLow kIso curviness : α) (c : Curve α)
    (h : Factory.fiberForceLength eZero eIso kLow kIso curviness = some c)
    (hnd : absα (kLow - kIso) > rootEPS) : ∃ kx ky km, c.CornerBuilt kx ky km :=
  (fiberForceLength_spec eZero eIso kLow kIso curviness c h).2 hnd
example : Factory.fiberForceLength (0:Rat) (7/10) (2/10) (20/7) (3/4) = some exFL ∧
    absα ((2/10 : Rat) - 20/7) > rootEPS := ⟨exFL_some, by decide +kernel⟩

/-- 1f : `createDampingBlendingCurve`, whole documented domain (both signs of the width) -/
theorem dampingBlending_WF (w : α) (c : Curve α) (h : Factory.dampingBlending w = some c) : c.WF :=
  (dampingBlending_spec w c h).1
theorem dampingBlending_corner (w : α) (c : Curve α) (h : Factory.dampingBlending w = some c) :
    ∃ kx ky km, c.CornerBuilt kx ky km := (dampingBlending_spec w c h).2
example : (Factory.dampingBlending (1/2:Rat)).isSome = true ∧ (Factory.dampingBlending (-1/2:Rat)).isSome = true :=
  exDB

/-- 1g : `createFiberCompressiveForceLengthCurve`, for a non-degenerate corner `|k| > sqrt(eps)`
    (implied by the documented domain whenever `lmax ≤ 2^26`) -/
theorem fiberCompressiveForceLength_WF (lmax k curviness : α) (c : Curve α)
    (h : Factory.fiberCompressiveForceLength lmax k curviness = some c) (hk : absα k > rootEPS) :
    c.WF ∧ ∃ kx ky km, c.CornerBuilt kx ky km :=
  fiberCompressiveForceLength_spec lmax k curviness c h hk
example : (Factory.fiberCompressiveForceLength (6/10:Rat) (-4) (1/2)).isSome = true ∧
    absα (-4 : Rat) > rootEPS := exCL
/-- without `hk`: the reported end slope `dydx0` is not the slope of the curve at `x0` -/
example : Factory.fiberCompressiveForceLength (134217728:Rat) (-3/268435456) (1/2) = some badCL ∧
    ¬ badCL.WF ∧ badCL.dydx0 = -3/268435456 ∧
    derivDYDX 0 (badCL.segX 0) (badCL.segY 0) 1 = -1/67108864 := badCL_spec

/-- 1h : `createFiberCompressiveForceCosPennationCurve`, for `k < -1/cosPhi0` -/
theorem fiberCompressiveForceCosPennation_WF (cosPhi0 k curviness : α) (c : Curve α)
    (h : Factory.fiberCompressiveForceCosPennation cosPhi0 k curviness = some c) (hk : k < -(1/cosPhi0)) :
    c.WF ∧ ∃ kx ky km, c.CornerBuilt kx ky km :=
  fiberCompressiveForceCosPennation_spec cosPhi0 k curviness c h hk
example : (Factory.fiberCompressiveForceCosPennation (1/10:Rat) (-12) (1/2)).isSome = true ∧
    (-12 : Rat) < -(1/(1/10)) := exCC
/-- DEFECT: the argument check of the code is `k < 1/cosPhi0` (its message says "k must be less than
    0"): `k = 0` is accepted, the curve starts with slope -4 and reports `dydx0 = 0` -/
example : Factory.fiberCompressiveForceCosPennation (1/2:Rat) 0 (1/2) = some badCC ∧
    ¬ badCC.WF ∧ badCC.dydx0 = 0 ∧ derivDYDX 0 (badCC.segX 0) (badCC.segY 0) 1 = -4 := badCC_spec

/-- 1i : `createFiberCompressiveForcePennationCurve`, for a non-degenerate corner `k > sqrt(eps)`
    (implied by the documented domain whenever `halfPi - phi0 ≤ 2^26`) -/
theorem fiberCompressiveForcePennation_WF (halfPi phi0 k curviness : α) (c : Curve α)
    (h : Factory.fiberCompressiveForcePennation halfPi phi0 k curviness = some c) (hk : k > rootEPS) :
    c.WF ∧ ∃ kx ky km, c.CornerBuilt kx ky km :=
  fiberCompressiveForcePennation_spec halfPi phi0 k curviness c h hk
example : (Factory.fiberCompressiveForcePennation (157/100:Rat) (7/5) 8 (1/2)).isSome = true ∧
    (8 : Rat) > rootEPS := exCP
example : Factory.fiberCompressiveForcePennation (268435456:Rat) 1 (3/536870912) (1/2) = some badCP ∧
    ¬ badCP.WF ∧ badCP.dydx0 ≠ derivDYDX 0 (badCP.segX 0) (badCP.segY 0) 1 := badCP_spec

/-- 1j : `createTendonForceLengthCurve`, for a non-degenerate first corner (`fToe > 2 eIso sqrt(eps)`);
    corner sections when also the second corner is non-degenerate (slope at the interior knot ≠ kIso) -/
theorem tendonForceLength_WF (eIso kIso fToe curviness : α) (c : Curve α)
    (h : Factory.tendonForceLength eIso kIso fToe curviness = some c) (hH : 2 * eIso * rootEPS < fToe) :
    c.WF ∧ (absα (derivDYDX 1 (c.segX 0) (c.segY 0) 1 - kIso) > rootEPS →
      ∃ kx ky km, c.CornerBuilt kx ky km) := tendonForceLength_spec eIso kIso fToe curviness c h hH
example : (Factory.tendonForceLength (49/1000:Rat) (1375/49) (2/3) (1/2)).isSome = true ∧
    2 * (49/1000 : Rat) * rootEPS < 2/3 := exTF
example : Factory.tendonForceLength (100000000:Rat) (1/50000000) (1/2) (1/2) = some badTF ∧
    ¬ badTF.WF ∧ badTF.dydx0 = 0 ∧ derivDYDX 0 (badTF.segX 0) (badTF.segY 0) 1 = 1/385000000 := badTF_spec

/-- 1k : `createTendonTorqueAngleCurve` (4- and 1-argument overloads), same conditions -/
theorem tendonTorqueAngle_WF (a k y curviness : α) (c : Curve α)
    (h : Factory.tendonTorqueAngle a k y curviness = some c) (hH : 2 * a * rootEPS < y) :
    c.WF ∧ (absα (derivDYDX 1 (c.segX 0) (c.segY 0) 1 - k) > rootEPS →
      ∃ kx ky km, c.CornerBuilt kx ky km) := tendonTorqueAngle_spec a k y curviness c h hH
theorem tendonTorqueAngle1_WF (a : α) (c : Curve α) (h : Factory.tendonTorqueAngle1 a = some c)
    (hH : 6 * a * rootEPS < 1) :
    c.WF ∧ (absα (derivDYDX 1 (c.segX 0) (c.segY 0) 1 - (15/10)/a) > rootEPS →
      ∃ kx ky km, c.CornerBuilt kx ky km) := tendonTorqueAngle1_spec a c h hH
example : (Factory.tendonTorqueAngle (1/2:Rat) 3 (1/3) (1/2)).isSome = true ∧
    2 * (1/2 : Rat) * rootEPS < 1/3 := exTT
example : (Factory.tendonTorqueAngle1 (1/2:Rat)).isSome = true ∧ 6 * (1/2 : Rat) * rootEPS < 1 := exTT1

/-- 1l : `createPassiveTorqueAngleCurve` (5- and 2-argument overloads) with the repaired toe width
    (D21: `if(delta <= 0) delta = 0.05*abs(x1-x0)`), on the WHOLE documented domain — no condition on
    the magnitude of `stiffnessAtOneNormTorque` any more:
    * increasing orientation (`angleAtZeroTorque < angleAtOneNormTorque`): well-formed, always;
    * both orientations: well-formed and made of corner sections (hence C2, 3e) when the corner between
      the two sections is non-degenerate, `|stiffnessAtLowTorque - stiffnessAtOneNormTorque| > sqrt(eps)`,
      which holds whenever the angle range is below 0.2/sqrt(eps) ≈ 1.3e7 rad.
    The residual hypothesis is needed: see `badPTdeg` (decreasing orientation, range 2^26 rad: reported
    `dydx0` ≠ slope at `x0`) and `badPTinc` (increasing: well-formed, slope jump at the interior knot). -/
theorem passiveTorqueAngle_WF_increasing (angleAtZeroTorque angleAtOneNormTorque stiffnessAtLowTorque
    stiffnessAtOneNormTorque curviness : α) (c : Curve α)
    (h : Factory.passiveTorqueAngle angleAtZeroTorque angleAtOneNormTorque stiffnessAtLowTorque
      stiffnessAtOneNormTorque curviness = some c) (hinc : angleAtZeroTorque < angleAtOneNormTorque) :
    c.WF := (passiveTorqueAngle_spec _ _ _ _ _ c h).1 hinc
theorem passiveTorqueAngle_WF (angleAtZeroTorque angleAtOneNormTorque stiffnessAtLowTorque
    stiffnessAtOneNormTorque curviness : α) (c : Curve α)
    (h : Factory.passiveTorqueAngle angleAtZeroTorque angleAtOneNormTorque stiffnessAtLowTorque
      stiffnessAtOneNormTorque curviness = some c)
    (hnd : absα (stiffnessAtLowTorque - stiffnessAtOneNormTorque) > rootEPS ∨
           absα (angleAtOneNormTorque - angleAtZeroTorque) * rootEPS < 2/10) :
    c.WF ∧ ∃ kx ky km, c.CornerBuilt kx ky km := (passiveTorqueAngle_spec _ _ _ _ _ c h).2 hnd
theorem passiveTorqueAngle2_WF (z o : α) (c : Curve α) (h : Factory.passiveTorqueAngle2 z o = some c) :
    (z < o → c.WF) ∧ (absα (o - z) * rootEPS < 2/10 → c.WF ∧ ∃ kx ky km, c.CornerBuilt kx ky km) :=
  passiveTorqueAngle2_spec z o c h
example : (Factory.passiveTorqueAngle (0:Rat) 2 (1/10) 2 (1/2)).isSome = true ∧ (0:Rat) < 2 ∧
    (Factory.passiveTorqueAngle (2:Rat) 0 (-1/10) (-2) (1/2)).isSome = true ∧
    absα ((0:Rat) - 2) * rootEPS < 2/10 := exPT
example : (Factory.passiveTorqueAngle2 (0:Rat) 1).isSome = true ∧ (0:Rat) < 1 ∧
    absα ((1:Rat) - 0) * rootEPS < 2/10 := exPT2
/-- the parameters of the former defect (|stiffnessAtOneNormTorque| = 0.6 < 1, range 2 rad) now give a
    well-formed curve with non-decreasing control polygons that starts at `(x0, y0)`; by
    `passiveTorqueAngle_WF`, `C2_everywhere` (example after 3e) and `eval_mono` it is C2 and monotone -/
example : Factory.passiveTorqueAngle (0:Rat) 2 0 (6/10) (1/2) = some goodPT ∧ goodPT.WF ∧
    absα ((0:Rat) - 6/10) > rootEPS ∧ goodPT.nseg = 2 ∧ (goodPT.segY 0).Mono ∧ (goodPT.segY 1).Mono ∧
    (goodPT.segX 0).p0 = 0 ∧ (goodPT.segX 0).p5 = 1/10 ∧ goodPT.calcIndex goodPT.x0 = some 0 ∧
    goodPT.eval goodPT.x0 0 = some goodPT.y0 := goodPT_spec
/-- residual hypothesis, decreasing orientation: degenerate corner, `dydx0` is not the slope at `x0` -/
example : Factory.passiveTorqueAngle (67108864:Rat) 0 (-4/335544320) (-3/134217728) (1/2) = some badPTdeg ∧
    ¬ badPTdeg.WF ∧ badPTdeg.dydx0 = -3/134217728 ∧
    derivDYDX 0 (badPTdeg.segX 0) (badPTdeg.segY 0) 1 = -3/159383552 := badPTdeg_spec
/-- residual hypothesis, increasing orientation: well-formed, but the slope jumps at the interior knot -/
example : Factory.passiveTorqueAngle (0:Rat) 67108864 (4/335544320) (3/134217728) (1/2) = some badPTinc ∧
    badPTinc.WF ∧ derivDYDX 1 (badPTinc.segX 0) (badPTinc.segY 0) 1 = 1/83886080 ∧
    derivDYDX 0 (badPTinc.segX 1) (badPTinc.segY 1) 1 = 107/12750684160 := badPTinc_spec
/-- BEFORE the repair (`L18C.passiveTorqueAngleOld` = the definition without the added line; it agrees
    with the repaired one e.g. on (0, 2, 0.1, 2, 0.5)): inside the documented domain (0.6 ≥ 1.1/2) the
    toe width `0.1 (1 - |1/k|)` was negative, the first section ran backwards out of `[x0, x1]`, the
    look-up at `x0` selected the second section and the function jumped at `x0` -/
example : passiveTorqueAngleOld (0:Rat) 2 (1/10) 2 (1/2) = Factory.passiveTorqueAngle (0:Rat) 2 (1/10) 2 (1/2) :=
  old_eq_new_instance
example : passiveTorqueAngleOld (0:Rat) 2 0 (6/10) (1/2) = some badPT ∧ ¬ badPT.WF ∧
    badPT.x0 = 0 ∧ (badPT.segX 0).p0 = 0 ∧ (badPT.segX 0).p5 = -1/15 ∧ badPT.calcIndex badPT.x0 = some 1 ∧
    (badPT.segX 1).p0 = -1/15 := badPT_spec
example (u : Rat) (h0 : 0 ≤ u) (h1 : u ≤ 1) (hx : bezVal u (badPT.segX 1) = badPT.x0) :
    badPT.eval badPT.x0 u ≠ some badPT.y0 := badPT_discontinuous u h0 h1 hx

/- Not covered: `createFiberActiveForceLengthCurve` (5 sections) and the two force-velocity factories
   (4 sections): their sections are assembled from slopes that are ratios of the parameters; the same
   tools (`L18C.corner_sec`, `corner_sec_pt`, `corner_sec2`) apply section by section. -/

/-! ### 2. evaluation of shifted / scaled curves (Bezier sections and both linear regions) -/

/-- 2a : value of the shifted curve: same section, same root -/
theorem eval_shift (c : Curve α) (hl : c.mY.length = c.mX.length) (dx dy x u : α) :
    (c.shift dx dy).eval (x + dx) u = (c.eval x u).map (· + dy) := eval_shift_raw c hl dx dy x u

/-- 2a' : every derivative of the shifted curve -/
theorem evalD_shift (c : Curve α) (hl : c.mY.length = c.mX.length) (dx dy x u : α) (k : Nat) (hk : 1 ≤ k) :
    (c.shift dx dy).evalD (x + dx) u k = c.evalD x u k := evalD_shift_raw c hl dx dy x u k hk

/-- 2a'' : the roots are the same -/
theorem rootAt_shift (c : Curve α) (dx dy x u : α) (i : Nat) :
    (c.shift dx dy).RootAt (x + dx) i u ↔ c.RootAt x i u := rootAt_shift_raw c dx dy x u i

/-- 2b : value of the curve scaled with a positive x factor: same section, same root -/
theorem eval_scale_pos (c c' : Curve α) (hl : c.mY.length = c.mX.length) (sx sy x u : α) (hs : 0 < sx)
    (hc : c.scale sx sy = some c') : c'.eval (x * sx) u = (c.eval x u).map (· * sy) := by
  rw [scale_pos_eq c c' sx sy hc (by grind)]; exact eval_scaleRaw_pos c hl sx sy x u hs

/-- 2b' : first and second derivative: factors sy/sx and sy/sx² -/
theorem evalD_scale_pos (c c' : Curve α) (h : c.WF) (sx sy x u : α) (hs : 0 < sx) (h0 : 0 ≤ u) (h1 : u ≤ 1)
    (hc : c.scale sx sy = some c') :
    c'.evalD (x * sx) u 1 = (c.evalD x u 1).map (· * (sy / sx)) ∧
    c'.evalD (x * sx) u 2 = (c.evalD x u 2).map (· * (sy / (sx * sx))) := by
  rw [scale_pos_eq c c' sx sy hc (by grind)]; exact evalD_scaleRaw_pos c h sx sy x u hs h0 h1

theorem rootAt_scale_pos (c c' : Curve α) (sx sy x u : α) (i : Nat) (hs : 0 < sx)
    (hc : c.scale sx sy = some c') : c'.RootAt (x * sx) i u ↔ c.RootAt x i u := by
  rw [scale_pos_eq c c' sx sy hc (by grind)]; exact rootAt_scaleRaw_pos c sx sy x u i hs

/-- 2c : value of the curve scaled with a negative x factor, away from interior knots: the mirrored
    section (index `nseg - 1 - i`) with parameter `1 - u`; left and right extrapolation exchanged -/
theorem eval_scale_neg (c c' : Curve α) (h : c.WF) (sx sy x u : α) (hs : sx < 0)
    (hc : c.scale sx sy = some c') (hk : ∀ i, 0 < i → i < c.nseg → x ≠ (c.segX i).p0) :
    c'.eval (x * sx) (1 - u) = (c.eval x u).map (· * sy) := by
  rw [scale_neg_eq c c' sx sy hc hs]; exact eval_neg c h sx sy x u hs hk

/-- 2c' : first and second derivative, factors sy/sx and sy/sx² -/
theorem evalD_scale_neg (c c' : Curve α) (h : c.WF) (sx sy x u : α) (hs : sx < 0) (h0 : 0 ≤ u) (h1 : u ≤ 1)
    (hc : c.scale sx sy = some c') (hk : ∀ i, 0 < i → i < c.nseg → x ≠ (c.segX i).p0) :
    c'.evalD (x * sx) (1 - u) 1 = (c.evalD x u 1).map (· * (sy / sx)) ∧
    c'.evalD (x * sx) (1 - u) 2 = (c.evalD x u 2).map (· * (sy / (sx * sx))) := by
  rw [scale_neg_eq c c' sx sy hc hs]; exact evalD_neg c h sx sy x u hs h0 h1 hk

/-- 2c'' : the root `u` of section `i` becomes the root `1 - u` of section `nseg - 1 - i` -/
theorem rootAt_scale_neg (c c' : Curve α) (h : c.WF) (sx sy x u : α) (i : Nat) (hs : sx < 0)
    (hc : c.scale sx sy = some c') (hk : ¬ (0 < i ∧ x = (c.segX i).p0)) (hr : c.RootAt x i u) :
    c'.RootAt (x * sx) (c.nseg - 1 - i) (1 - u) := by
  rw [scale_neg_eq c c' sx sy hc hs]; exact rootAt_neg c h sx sy x u i hs hk hr

/-- 2c''' : AT an interior knot `x = p0 of section i` the original curve evaluates section `i` at
    `u = 0`, the mirrored curve the mirror of section `i - 1` at its `u = 0` (`calcIndex` works
    with half-open intervals): the value is the same, the reported derivatives are the LEFT-sided
    derivatives of the original (equal to the right-sided ones for a C2 curve, see 3a) -/
theorem eval_scale_neg_knot (c c' : Curve α) (h : c.WF) (sx sy : α) (hs : sx < 0) (i : Nat)
    (hi0 : 0 < i) (hi : i < c.nseg) (x : α) (hx : x = (c.segX i).p0) (hc : c.scale sx sy = some c') :
    c.RootAt x i 0 ∧ c'.RootAt (x * sx) (c.nseg - i) 0 ∧
    c'.eval (x * sx) 0 = (c.eval x 0).map (· * sy) ∧
    c'.evalD (x * sx) 0 1 = some (c.derivAt x (i - 1) 1 1 * (sy / sx)) ∧
    c'.evalD (x * sx) 0 2 = some (c.derivAt x (i - 1) 1 2 * (sy / (sx * sx))) := by
  rw [scale_neg_eq c c' sx sy hc hs]; exact eval_neg_knot c h sx sy hs i hi0 hi x hx

/-- 2c-any : uniform statement for the value: whatever admissible roots the two evaluations find (`u`
    for the original curve at `x`, `u'` for the scaled curve at `x·sx`), the values correspond — on
    Bezier sections (there `u' = 1 - u` by uniqueness of the root), at interior knots and in both
    linear regions -/
theorem eval_scale_neg_any (c c' : Curve α) (h : c.WF) (sx sy x u u' : α) (hs : sx < 0)
    (hc : c.scale sx sy = some c') (hu : c.IsRoot x u) (hu' : c'.IsRoot (x * sx) u') :
    c'.eval (x * sx) u' = (c.eval x u).map (· * sy) := by
  rw [scale_neg_eq c c' sx sy hc hs] at hu' ⊢; exact eval_neg_any c h sx sy x u u' hs hu hu'

/-- 2d : the two linear regions (region test `x < x0`, `x > x1`): value, slope, zero curvature -/
theorem eval_extrapolation (c : Curve α) (h : c.WF) (x u : α) :
    (x < c.x0 → c.eval x u = some (c.y0 + c.dydx0 * (x - c.x0)) ∧ c.evalD x u 1 = some c.dydx0 ∧
      c.evalD x u 2 = some 0) ∧
    (c.x1 < x → c.eval x u = some (c.y1 + c.dydx1 * (x - c.x1)) ∧ c.evalD x u 1 = some c.dydx1 ∧
      c.evalD x u 2 = some 0) := by
  have hxx := x0_lt_x1 c h
  constructor
  · intro hx
    have hm : c.region x = .left := by
      rcases region_cases c x with ⟨_, a, _⟩ | ⟨r, _⟩ | ⟨_, _, a⟩
      · grind
      · exact r
      · exact absurd hx a
    exact ⟨eval_left c x u hm, evalD_left c x u hm⟩
  · intro hx
    have hm : c.region x = .right := by
      rcases region_cases c x with ⟨_, _, a⟩ | ⟨_, a⟩ | ⟨r, _⟩
      · grind
      · grind
      · exact r
    exact ⟨eval_right c x u hm, evalD_right c x u hm⟩

/-- 2e : inside `[x0, x1]`: the section found by `calcIndex`, evaluated at the root -/
theorem eval_inside (c : Curve α) (h : c.WF) (x u : α) (h0 : c.x0 ≤ x) (h1 : x ≤ c.x1) :
    ∃ i, c.calcIndex x = some i ∧ c.eval x u = some (bezVal u (c.segY i)) ∧
      c.evalD x u 1 = some (derivDYDX u (c.segX i) (c.segY i) 1) ∧
      c.evalD x u 2 = some (derivDYDX u (c.segX i) (c.segY i) 2) := by
  obtain ⟨i, hi⟩ := calcIndex_isSome c h x h0 h1
  have hm := region_mid c x h0 h1
  exact ⟨i, hi, eval_mid c x u i hm hi, evalD_mid c x u i 1 (by omega) hm hi, evalD_mid c x u i 2 (by omega) hm hi⟩

example : exFL.mY.length = exFL.mX.length := by decide +kernel
example : exFL.RootAt (407/400) 0 (1/2) := by decide +kernel
example : exFL.WF ∧ (-2:Rat) < 0 ∧ exFL.scale (-2) 3 = some (exFL.scaleRaw (-2) 3).mirror ∧
    (∀ i, 0 < i → i < exFL.nseg → (407/400 : Rat) ≠ (exFL.segX i).p0) ∧ exFL.RootAt (407/400) 0 (1/2) := by
  refine ⟨exFL_WF, by decide, exFL_scale_neg, ?_, by decide +kernel⟩
  intro i h0 h1; rw [exFL_nseg] at h1
  have : i = 1 := by omega
  subst this; decide +kernel
example : (0:Nat) < 1 ∧ 1 < exFL.nseg := by decide +kernel
example : exFL.IsRoot (407/400) (1/2) ∧ (exFL.scaleRaw (-2) 3).mirror.IsRoot (407/400 * -2) (1/2) := by
  decide +kernel

/-! ### 3. C2 at every breakpoint -/

/-- 3a : at every interior knot the left section at `u = 1` and the right section at `u = 0` report
    the same value, first and second derivative -/
theorem C2_interior (c : Curve α) (kx ky km : Nat → α) (h : c.WF) (hb : c.CornerBuilt kx ky km)
    (i : Nat) (hi : i + 1 < c.nseg) :
    c.derivAt (c.segX (i+1)).p0 i 1 0 = c.derivAt (c.segX (i+1)).p0 (i+1) 0 0 ∧
    c.derivAt (c.segX (i+1)).p0 i 1 1 = c.derivAt (c.segX (i+1)).p0 (i+1) 0 1 ∧
    c.derivAt (c.segX (i+1)).p0 i 1 2 = c.derivAt (c.segX (i+1)).p0 (i+1) 0 2 :=
  knot_C2 c kx ky km h hb i hi

/-- 3b : at `x0` the first section (u = 0) has the value and slope of the left extrapolation line and
    zero second derivative; 3c : the same at `x1` for the last section (u = 1).  Together with 2d
    and 3a the one-sided data agree at every breakpoint: the function is C2 everywhere. -/
theorem C2_left (c : Curve α) (kx ky km : Nat → α) (h : c.WF) (hb : c.CornerBuilt kx ky km) :
    c.derivAt c.x0 0 0 0 = c.y0 + c.dydx0 * (c.x0 - c.x0) ∧ c.derivAt c.x0 0 0 1 = c.dydx0 ∧
    c.derivAt c.x0 0 0 2 = 0 := left_C2 c kx ky km h hb
theorem C2_right (c : Curve α) (kx ky km : Nat → α) (h : c.WF) (hb : c.CornerBuilt kx ky km) :
    c.derivAt c.x1 (c.nseg - 1) 1 0 = c.y1 + c.dydx1 * (c.x1 - c.x1) ∧
    c.derivAt c.x1 (c.nseg - 1) 1 1 = c.dydx1 ∧ c.derivAt c.x1 (c.nseg - 1) 1 2 = 0 :=
  right_C2 c kx ky km h hb

/-- 3d : value and slope continuity at the two ends need only `WF` -/
theorem C1_ends (c : Curve α) (h : c.WF) :
    c.derivAt c.x0 0 0 0 = c.y0 ∧ c.derivAt c.x0 0 0 1 = c.dydx0 ∧
    c.derivAt c.x1 (c.nseg - 1) 1 0 = c.y1 ∧ c.derivAt c.x1 (c.nseg - 1) 1 1 = c.dydx1 := by
  have hxx := x0_lt_x1 c h
  have m0 : c.region c.x0 = .mid := region_mid c _ (Std.le_refl _) (by grind)
  have m1 : c.region c.x1 = .mid := region_mid c _ (by grind) (Std.le_refl _)
  simp [Curve.derivAt, Curve.valueAt, m0, m1, bezVal_zero, bezVal_one, h.hy0, h.hy1, h.hd0, h.hd1]

example : exFL.WF ∧ exFL.CornerBuilt exKx exKy exKm ∧ 0 + 1 < exFL.nseg :=
  ⟨exFL_WF, exFL_corner, by decide +kernel⟩

/-- 3e : summary — a well-formed curve of corner sections (in particular every factory curve of 1e-1l
    under the stated conditions) has matching one-sided value, slope and curvature at every interior
    knot and at both transitions to the linear extrapolation -/
theorem C2_everywhere (c : Curve α) (h : c.WF) (hb : ∃ kx ky km, c.CornerBuilt kx ky km) : c.C2 := by
  unfold Curve.C2
  obtain ⟨kx, ky, km, hb⟩ := hb
  obtain ⟨l0, l1, l2⟩ := left_C2 c kx ky km h hb
  obtain ⟨r0, r1, r2⟩ := right_C2 c kx ky km h hb
  obtain ⟨e0, _, e1, _⟩ := C1_ends c h
  refine ⟨?_, ⟨e0, l1, l2⟩, ⟨e1, r1, r2⟩⟩
  intro i hi k hk
  obtain ⟨a0, a1, a2⟩ := knot_C2 c kx ky km h hb i hi
  have : k = 0 ∨ k = 1 ∨ k = 2 := by omega
  rcases this with e | e | e <;> subst e
  · exact a0
  · exact a1
  · exact a2
example : exFL.WF ∧ ∃ kx ky km, exFL.CornerBuilt kx ky km := ⟨exFL_WF, _, _, _, exFL_corner⟩
/-- the repaired passive torque-angle curve at the parameters of the former defect D21 (see 1l) -/
example : goodPT.WF ∧ goodPT.C2 ∧ (∀ i, i < goodPT.nseg → (goodPT.segY i).Mono) := by
  obtain ⟨e, _, hnd, hn, m0, m1, _⟩ := goodPT_spec
  obtain ⟨w, cb⟩ := passiveTorqueAngle_WF (0:Rat) 2 0 (6/10) (1/2) goodPT e (Or.inl hnd)
  refine ⟨w, C2_everywhere goodPT w cb, ?_⟩
  intro i hi; rw [hn] at hi
  have : i = 0 ∨ i = 1 := by omega
  rcases this with e | e <;> subst e
  · exact m0
  · exact m1

/-- 3f : shifting and scaling (either sign of the x factor) preserve the C2 breakpoint conditions
    `Curve.C2` (defined in `Lemmas/L18CXform.lean`: the conclusion of 3e) -/
theorem C2_shift (c : Curve α) (h : c.WF) (hc : c.C2) (dx dy : α) : (c.shift dx dy).C2 :=
  C2_shift_raw c h hc dx dy
theorem C2_scale_pos (c c' : Curve α) (h : c.WF) (hc : c.C2) (sx sy : α) (hs : 0 < sx)
    (he : c.scale sx sy = some c') : c'.C2 := by
  rw [scale_pos_eq c c' sx sy he (by grind)]; exact C2_scaleRaw_pos c h hc sx sy hs
theorem C2_scale_neg (c c' : Curve α) (h : c.WF) (hc : c.C2) (sx sy : α) (hs : sx < 0)
    (he : c.scale sx sy = some c') : c'.C2 := by
  rw [scale_neg_eq c c' sx sy he hs]; exact C2_mirror_scaleRaw_neg c h hc sx sy hs
example : exFL.WF ∧ exFL.C2 ∧ (-2:Rat) < 0 ∧ exFL.scale (-2) 3 = some (exFL.scaleRaw (-2) 3).mirror :=
  ⟨exFL_WF, C2_everywhere exFL exFL_WF ⟨_, _, _, exFL_corner⟩, by decide, exFL_scale_neg⟩

/-! ### 4. monotonicity -/

/-- 4a : a non-decreasing control polygon gives a non-decreasing section polynomial on [0,1]
    (integral form of `C18.derivU1_nonneg`) -/
theorem section_mono (a b : α) (p : P6 α) (h0 : 0 ≤ a) (hab : a ≤ b) (h1 : b ≤ 1) (hp : p.Mono) :
    bezVal a p ≤ bezVal b p := bezVal_mono a b p h0 hab h1 hp

/-- 4b : a strictly increasing control polygon gives a strictly increasing polynomial; in particular
    the root of x(u) = x is unique -/
theorem section_strictMono (a b : α) (p : P6 α) (h0 : 0 ≤ a) (hab : a < b) (h1 : b ≤ 1)
    (hp : p.StrictIncr) : bezVal a p < bezVal b p := bezVal_strictMono a b p h0 hab h1 hp
theorem root_unique (a b : α) (p : P6 α) (ha0 : 0 ≤ a) (ha1 : a ≤ 1) (hb0 : 0 ≤ b) (hb1 : b ≤ 1)
    (hp : p.StrictIncr) (e : bezVal a p = bezVal b p) : a = b := bezVal_inj a b p ha0 ha1 hb0 hb1 hp e

/-- 4c : a well-formed curve whose y control polygons are non-decreasing is a non-decreasing
    function on the whole real line (sections, knots and both extrapolations); the end slopes are
    non-negative as a consequence of `WF` -/
theorem eval_mono (c : Curve α) (h : c.WF) (hY : ∀ i, i < c.nseg → (c.segY i).Mono)
    (x x' u u' y y' : α) (hx : x ≤ x') (hu : c.IsRoot x u) (hu' : c.IsRoot x' u')
    (he : c.eval x u = some y) (he' : c.eval x' u' = some y') : y ≤ y' :=
  eval_mono_raw c h hY x x' u u' y y' hx hu hu' he he'

example : (0:Rat) ≤ 1/3 ∧ (1/3:Rat) ≤ 1/2 ∧ (1/2 : Rat) ≤ 1 ∧ (exFL.segY 1).Mono ∧ (exFL.segX 1).StrictIncr := by
  decide +kernel
example : exFL.WF ∧ (∀ i, i < exFL.nseg → (exFL.segY i).Mono) ∧ (9/10 : Rat) ≤ 407/400 ∧
    exFL.IsRoot (9/10) 0 ∧ exFL.IsRoot (407/400) (1/2) ∧
    exFL.eval (9/10) 0 = some 0 ∧ exFL.eval (407/400) (1/2) = some (7/16000) := by
  refine ⟨exFL_WF, ?_, by decide +kernel, ?_, ?_, by decide +kernel, by decide +kernel⟩
  · intro i hi; rw [exFL_nseg] at hi
    have : i = 0 ∨ i = 1 := by omega
    rcases this with e | e <;> subst e <;> decide +kernel
  · intro hm; exact absurd hm (by decide +kernel)
  · intro _ i hi
    have : i = 0 := by
      have : exFL.calcIndex (407/400) = some 0 := by decide +kernel
      rw [this] at hi; cases hi; rfl
    subst this; decide +kernel

/-! ### 5. inverse evaluation returns a pre-image -/

/-- 5a : every point (x(u), y(u)) of every section lies on the graph of `calcValue`, whichever
    admissible root `u'` the evaluation uses at x(u) (at a knot it works in the right neighbour) -/
theorem section_point_on_graph (c : Curve α) (h : c.WF) (i : Nat) (hi : i < c.nseg) (u u' : α)
    (h0 : 0 ≤ u) (h1 : u ≤ 1) (hr : c.IsRoot (bezVal u (c.segX i)) u') :
    c.eval (bezVal u (c.segX i)) u' = some (bezVal u (c.segY i)) := preimage_section c h i hi u u' h0 h1 hr

/-- 5b : the section selected by `calcInverseValue` exists and its y range contains `y` -/
theorem invSection_sound (c : Curve α) (y g : α) (i : Nat) (h : c.invSection y g = some i) :
    i < c.nseg ∧ 0 ≤ (y - (c.segY i).p0) * ((c.segY i).p5 - y) := invSection_spec c y g i h

/-- 5c : `calcInverseValue(y, xGuess)` (Bezier branch with the root `u` of y(u) = y, and the two
    linear branches) returns an `x` with `calcValue(x) = y` -/
theorem inverse_preimage (c : Curve α) (h : c.WF) (y g u x u' : α) (hi : c.inverse y g u = some x)
    (hu : ∀ i, c.invSection y g = some i → 0 ≤ u ∧ u ≤ 1 ∧ bezVal u (c.segY i) = y)
    (hr : c.IsRoot x u') : c.eval x u' = some y := inverse_preimage_raw c h y g u x u' hi hu hr

example : exFL.inverse (7/16000) 1 (1/2) = some (407/400) ∧ exFL.invSection (7/16000) 1 = some 0 ∧
    bezVal (1/2) (exFL.segY 0) = (7/16000 : Rat) := by decide +kernel
example : exFL.inverse 2 1 0 = some (41/20) := by decide +kernel
example : (0:Nat) < exFL.nseg ∧ (0:Rat) ≤ 1/2 ∧ (1/2:Rat) ≤ 1 ∧ bezVal (1/2 : Rat) (exFL.segX 0) = 407/400 := by
  decide +kernel
end curve

/-! ### 6. getters -/
section getters
variable {α : Type} [Field α] [Inhabited α]

/-- 6a : `getXControlPoints` / `getYControlPoints` return all six stored values of every section -/
theorem getCP_exact (vecs : List (P6 α)) : Curve.getCP vecs = vecs.map P6.toList := getCP_eq vecs

/-- 6b : the curve rebuilt from the reported control points and the six end data is the same curve -/
theorem rebuild (c : Curve α) :
    ({ x0 := c.x0, x1 := c.x1, y0 := c.y0, y1 := c.y1, dydx0 := c.dydx0, dydx1 := c.dydx1,
       mX := (Curve.getCP c.mX).map P6.ofList, mY := (Curve.getCP c.mY).map P6.ofList } : Curve α) = c := by
  rw [map_ofList_getCP, map_ofList_getCP]

/-- 6c : the same through `updSmoothSegmentedFunction` (`Curve.ofSections`) -/
theorem rebuild_ofSections (c : Curve α) (hl : c.mY.length = c.mX.length) :
    Curve.ofSections (((Curve.getCP c.mX).map P6.ofList).zip ((Curve.getCP c.mY).map P6.ofList))
      c.x0 c.x1 c.y0 c.y1 c.dydx0 c.dydx1 = c := by
  rw [map_ofList_getCP, map_ofList_getCP]
  simp only [Curve.ofSections]
  have a : (c.mX.zip c.mY).map (·.1) = c.mX := by
    rw [List.map_fst_zip]; omega
  have b : (c.mX.zip c.mY).map (·.2) = c.mY := by
    rw [List.map_snd_zip]; omega
  rw [a, b]
example : exFL.mY.length = exFL.mX.length := by decide +kernel
end getters
end Rbdl.C18Curve
