import RbdlProofs.Lemmas.Kin04
import RbdlProofs.Lemmas.Kin04Ex
/-
  C04 — forward kinematics follows the joint definitions.

  `poseOfXT X = (X.Eᵀ, X.r)` is the pose described by a `SpatialTransform`; `Spec.jointPose` /
  `Spec.framePose` / `Pose.comp` are the first-principles side (`Rbdl/Spec/Mech.lean`);
  `ModelS.sjoint`, `coordsOf` (`Rbdl/Spec/Link.lean`) read the joint definition and the coordinates
  off the model / state.  Helper notions from `RbdlProofs/Lemmas/Kin04.lean`:
  * `JT.hasJcalc t` — `t` is one of the joint types `jcalc` handles (revoluteX/Y/Z, revolute,
    prismatic, helical, spherical, the four Euler orders, translationXYZ, custom);
  * `ModelS.jointUnit m i st` — the (cos, sin) pairs joint `i` reads satisfy `c² + s² = 1`, its axis
    is unit (revolute / helical), its quaternion is unit (spherical).

  Findings: the *pose* statements 1, 2, 4 are polynomial identities — no rotation hypothesis, no
  `c² + s² = 1`, no unit axis, no unit quaternion is needed (Rodrigues' formula and `Xrot` agree
  identically, as do `Quaternion::toMatrix` and the standard quaternion matrix).  The unit
  hypotheses are needed only for the rotation invariant (5, 7b) and the inverse pair (6).
  `DecidableEq α` is not needed anywhere.
-/
namespace Rbdl.C04
open Lean.Grind Rbdl

/-! ### 1. product of transforms = composition of poses (commutative ring, no hypothesis) -/

theorem poseOfXT_mul {α : Type} [CommRing α] (X Y : XT α) :
    poseOfXT (X * Y) = (poseOfXT Y).comp (poseOfXT X) := poseOfXT_mul' X Y

variable {α : Type} [Field α]

/-! ### 2. `jcalc` / `jcalc_X_lambda_S` realise the joint definition -/

/-- For every joint type handled by `jcalc`: the parent→child transform written by `jcalc` is the
    joint frame followed by the pose the joint *definition* prescribes.  No unit hypotheses. -/
theorem jcalc_pose (m : ModelS α) (w : WS α) (i : Nat) (st : QS α) (qd : VecN α)
    (hj : (m.joint i).jt.hasJcalc = true) :
    poseOfXT ((jcalc m w i st qd).X_lambda i) =
      (Spec.framePose id (m.XT_ i).E (m.XT_ i).r).comp
        (Spec.jointPose id (m.sjoint i) (m.joint i).qIndex (m.w3 i) (coordsOf st)) := by
  rw [jcalc_X_lambda, upd_same]
  exact jcalcX_pose m i st _ hj
example (w : WS Rat) (qd : VecN Rat) :=
  jcalc_pose Ex.m w 2 Ex.st qd rfl   -- general revolute joint, axis (2,1,2)/3
example (w : WS Rat) (qd : VecN Rat) :=
  jcalc_pose Ex.m w 3 Ex.st qd rfl   -- spherical joint
example (w : WS Rat) (qd : VecN Rat) :=
  jcalc_pose Ex.m w 4 Ex.st qd rfl   -- custom (cylindrical) joint

/-- same for `jcalc_X_lambda_S` -/
theorem jcalcXlambdaS_pose (m : ModelS α) (w : WS α) (i : Nat) (st : QS α)
    (hj : (m.joint i).jt.hasJcalc = true) :
    poseOfXT ((jcalcXlambdaS m w i st).X_lambda i) =
      (Spec.framePose id (m.XT_ i).E (m.XT_ i).r).comp
        (Spec.jointPose id (m.sjoint i) (m.joint i).qIndex (m.w3 i) (coordsOf st)) := by
  rw [jcalcXlambdaS_X_lambda, upd_same]
  exact jcalcX_pose m i st _ hj
example (w : WS Rat) := jcalcXlambdaS_pose Ex.m w 2 Ex.st rfl

/-- the joint types outside `hasJcalc` (undefined, fixed, floatingBase, dof1..dof6 — none of them
    is ever stored in a model by `AddBody`) are not touched by `jcalc`, so the statement cannot hold
    for them in general -/
example (m : ModelS α) (w : WS α) (i : Nat) (st : QS α) (qd : VecN α)
    (hj : (m.joint i).jt.hasJcalc = false) : jcalc m w i st qd = w := by
  unfold jcalc
  dsimp only
  cases h : (m.joint i).jt <;> simp only [h, JT.hasJcalc, Bool.true_eq_false] at hj <;> rfl

/-! ### 3. the position loop of `UpdateKinematicsCustom` -/

/-- After `UpdateKinematicsCustom(Q)`: `X_lambda[i]` is what `jcalc` computes for joint `i` (from
    joint `i` and `st` alone), `X_base[i]` satisfies the base-outward recursion with the *final*
    values, entry 0 is untouched. -/
theorem ukc_step (m : ModelS α) (w : WS α) (st : QS α)
    (htree : ∀ i, 1 ≤ i → i < m.nBodies → m.lam i < i) :
    let w' := updateKinematicsCustom m w (some st) none none
    (∀ i, 1 ≤ i → i < m.nBodies →
      w'.X_lambda i = (jcalc m w i st zeroVec).X_lambda i ∧
      w'.X_base i = if m.lam i ≠ 0 then w'.X_lambda i * w'.X_base (m.lam i) else w'.X_lambda i) ∧
    w'.X_base 0 = w.X_base 0 ∧ w'.X_lambda 0 = w.X_lambda 0 := by
  intro w'
  refine ⟨fun i h1 h2 => ⟨?_, ukc_X_base m w st htree i h1 h2⟩, ?_, ?_⟩
  · rw [jcalc_X_lambda, upd_same]; exact ukc_X_lambda m w st i h1 h2
  · exact ukc_X_base_outside m w st 0 (Or.inl rfl)
  · exact ukc_X_lambda_outside m w st 0 (Or.inl rfl)
example := ukc_step Ex.m Ex.w Ex.st Ex.m_tree

/-! ### 4. the workspace satisfies the recursion that defines `Spec.fkTable` -/

theorem fk_pose_step (m : ModelS α) (w : WS α) (st : QS α)
    (htree : ∀ i, 1 ≤ i → i < m.nBodies → m.lam i < i)
    (i : Nat) (h1 : 1 ≤ i) (h2 : i < m.nBodies) (hj : (m.joint i).jt.hasJcalc = true) :
    let w' := updateKinematicsCustom m w (some st) none none
    let rel := (Spec.framePose id (m.XT_ i).E (m.XT_ i).r).comp
        (Spec.jointPose id (m.sjoint i) (m.joint i).qIndex (m.w3 i) (coordsOf st))
    poseOfXT (w'.X_base i) =
      if m.lam i ≠ 0 then (poseOfXT (w'.X_base (m.lam i))).comp rel else rel := by
  intro w' rel
  obtain ⟨hl, hb⟩ := (ukc_step m w st htree).1 i h1 h2
  have hp : poseOfXT (w'.X_lambda i) = rel := by
    rw [show w'.X_lambda i = _ from hl]; exact jcalc_pose m w i st zeroVec hj
  rw [show w'.X_base i = _ from hb]
  split
  · rw [poseOfXT_mul, hp]
  · exact hp
example := fk_pose_step Ex.m Ex.w Ex.st Ex.m_tree 3 (by decide) (by decide) rfl  -- λ(3) = 2 ≠ 0
example := fk_pose_step Ex.m Ex.w Ex.st Ex.m_tree 1 (by decide) (by decide) rfl  -- λ(1) = 0

/-! ### 5. all `X_base[i].E` are rotations -/

theorem isRot_invariant (m : ModelS α) (w : WS α) (st : QS α)
    (htree : ∀ i, 1 ≤ i → i < m.nBodies → m.lam i < i)
    (hjc : ∀ i, 1 ≤ i → i < m.nBodies → (m.joint i).jt.hasJcalc = true)
    (hframe : ∀ i, 1 ≤ i → i < m.nBodies → (m.XT_ i).E.IsRot)
    (hunit : ∀ i, 1 ≤ i → i < m.nBodies → m.jointUnit i st)
    (h0 : (w.X_base 0).E.IsRot) :
    ∀ i, i < m.nBodies → ((updateKinematicsCustom m w (some st) none none).X_base i).E.IsRot := by
  intro i
  induction i using Nat.strongRecOn with
  | _ i ih =>
    intro hi
    by_cases hz : i = 0
    · subst hz; rw [(ukc_step m w st htree).2.1]; exact h0
    · have h1 : 1 ≤ i := by omega
      obtain ⟨hl, hb⟩ := (ukc_step m w st htree).1 i h1 hi
      have hlr : ((updateKinematicsCustom m w (some st) none none).X_lambda i).E.IsRot := by
        rw [ukc_X_lambda m w st i h1 hi]
        exact jcalcX_isRot m i st _ (hjc i h1 hi) (hframe i h1 hi) (hunit i h1 hi)
      rw [show (updateKinematicsCustom m w (some st) none none).X_base i = _ from hb]
      split
      · rw [XT.mul_E]
        have hlt := htree i h1 hi
        exact hlr.mul (ih (m.lam i) hlt (by omega))
      · exact hlr
example : ∀ i, i < Ex.m.nBodies →
    ((updateKinematicsCustom Ex.m Ex.w (some Ex.st) none none).X_base i).E.IsRot :=
  isRot_invariant Ex.m Ex.w Ex.st Ex.m_tree Ex.m_hasJcalc Ex.m_frames Ex.m_unit Ex.w_base0
/-- `hjc` cannot be dropped: with a joint of a type `jcalc` ignores (never produced by `AddBody`)
    `X_lambda[1]` keeps whatever the workspace held, here the zero matrix; all other hypotheses hold -/
example : (∀ i, 1 ≤ i → i < Ex.mBad.nBodies → Ex.mBad.lam i < i) ∧
    (∀ i, 1 ≤ i → i < Ex.mBad.nBodies → (Ex.mBad.XT_ i).E.IsRot) ∧
    (∀ i, 1 ≤ i → i < Ex.mBad.nBodies → Ex.mBad.jointUnit i Ex.st) ∧
    (Ex.wBad.X_base 0).E.IsRot ∧ 1 < Ex.mBad.nBodies ∧
    ¬ ((updateKinematicsCustom Ex.mBad Ex.wBad (some Ex.st) none none).X_base 1).E.IsRot := by
  refine ⟨Ex.mBad_tree, Ex.mBad_frames, Ex.mBad_unit, M3.isRot_one, by decide, ?_⟩
  rw [Ex.mBad_X_base1]
  intro h
  have := h.n0
  simp only [M3.zero] at this
  grind

/-! ### 6. `CalcBaseToBodyCoordinates` and `CalcBodyToBaseCoordinates` are mutually inverse -/

theorem base_body_inverse_movable (m : ModelS α) (w : WS α) (id : Nat)
    (p : V3 α) (hid : ¬ fixedDisc ≤ id) (h : (w.X_base id).E.IsRot) :
    baseToBody0 m w id (bodyToBase0 m w id p) = p ∧
    bodyToBase0 m w id (baseToBody0 m w id p) = p := by
  unfold baseToBody0 bodyToBase0
  simp only [if_neg hid]
  constructor
  · have : (w.X_base id).r + (w.X_base id).E.tmulVec p - (w.X_base id).r
        = (w.X_base id).E.tmulVec p := by alg_ext
    rw [this, h.mul_tmulVec]
  · rw [h.tmulVec_mul]; alg_ext
example (p : V3 Rat) :=
  base_body_inverse_movable Ex.m (updateKinematicsCustom Ex.m Ex.w (some Ex.st) none none) 3 p
    (by decide)
    (isRot_invariant Ex.m Ex.w Ex.st Ex.m_tree Ex.m_hasJcalc Ex.m_frames Ex.m_unit Ex.w_base0
      3 (by decide))

theorem base_body_inverse_fixed (m : ModelS α) (w : WS α) (id : Nat)
    (p : V3 α) (hid : fixedDisc ≤ id)
    (h : (w.X_base (m.fixedBody (id - fixedDisc)).movableParent).E.IsRot)
    (hf : (m.fixedBody (id - fixedDisc)).parentTransform.E.IsRot) :
    baseToBody0 m w id (bodyToBase0 m w id p) = p ∧
    bodyToBase0 m w id (baseToBody0 m w id p) = p := by
  unfold baseToBody0 bodyToBase0
  simp only [if_pos hid]
  generalize (w.X_base (m.fixedBody (id - fixedDisc)).movableParent) = X at h ⊢
  generalize (m.fixedBody (id - fixedDisc)).parentTransform = T at hf ⊢
  constructor
  · have e1 : ∀ u : V3 α, X.E * (X.r - (X.r + X.E.tmulVec u)) = -u := by
      intro u
      have : X.r - (X.r + X.E.tmulVec u) = X.E.tmulVec (-u) := by alg_ext
      rw [this, h.mul_tmulVec]
    have e2 : ∀ u : V3 α, -T.r - -(T.r + u) = u := by intro u; alg_ext
    rw [e1, e2, hf.mul_tmulVec]
  · have e1 : ∀ u : V3 α, T.r + T.E.tmulVec (T.E * (-T.r - u)) = -u := by
      intro u; rw [hf.tmulVec_mul]; alg_ext
    have e2 : ∀ u : V3 α, X.r + X.E.tmulVec (-(X.E * (X.r - u))) = u := by
      intro u
      have : -(X.E * (X.r - u)) = X.E * (u - X.r) := by alg_ext
      rw [this, h.tmulVec_mul]; alg_ext
    rw [e1, e2]
example (p : V3 Rat) :=
  base_body_inverse_fixed Ex.m (updateKinematicsCustom Ex.m Ex.w (some Ex.st) none none)
    fixedDisc p (by decide)
    (isRot_invariant Ex.m Ex.w Ex.st Ex.m_tree Ex.m_hasJcalc Ex.m_frames Ex.m_unit Ex.w_base0
      2 (by decide))
    Ex.m_fixedFrame

/-! ### 7. `CalcBodyWorldOrientation` -/

theorem orientation_eq (m : ModelS α) (w : WS α) (id : Nat) :
    (worldOrientation0 m w id).2 =
      if fixedDisc ≤ id then
        (m.fixedBody (id - fixedDisc)).parentTransform.E *
          (w.X_base (m.fixedBody (id - fixedDisc)).movableParent).E
      else (w.X_base id).E := by
  unfold worldOrientation0
  split <;> rfl

/-- the reported orientation is a rotation after `UpdateKinematicsCustom(Q)`, under the hypotheses
    of `isRot_invariant` (for a fixed body also its `parentTransform.E` must be a rotation) -/
theorem orientation_isRot (m : ModelS α) (w : WS α) (st : QS α)
    (htree : ∀ i, 1 ≤ i → i < m.nBodies → m.lam i < i)
    (hjc : ∀ i, 1 ≤ i → i < m.nBodies → (m.joint i).jt.hasJcalc = true)
    (hframe : ∀ i, 1 ≤ i → i < m.nBodies → (m.XT_ i).E.IsRot)
    (hunit : ∀ i, 1 ≤ i → i < m.nBodies → m.jointUnit i st)
    (h0 : (w.X_base 0).E.IsRot) (id : Nat)
    (hid : if fixedDisc ≤ id then
        (m.fixedBody (id - fixedDisc)).movableParent < m.nBodies ∧
        (m.fixedBody (id - fixedDisc)).parentTransform.E.IsRot
      else id < m.nBodies) :
    (worldOrientation0 m (updateKinematicsCustom m w (some st) none none) id).2.IsRot := by
  have hinv := isRot_invariant m w st htree hjc hframe hunit h0
  rw [orientation_eq]
  split
  · rename_i hfix
    rw [if_pos hfix] at hid
    exact hid.2.mul (hinv _ hid.1)
  · rename_i hfix
    rw [if_neg hfix] at hid
    exact hinv _ hid
example := orientation_isRot Ex.m Ex.w Ex.st Ex.m_tree Ex.m_hasJcalc Ex.m_frames Ex.m_unit
  Ex.w_base0 3 (by rw [if_neg (by decide)]; decide)
example := orientation_isRot Ex.m Ex.w Ex.st Ex.m_tree Ex.m_hasJcalc Ex.m_frames Ex.m_unit
  Ex.w_base0 fixedDisc (by rw [if_pos (by decide)]; exact ⟨by decide, Ex.m_fixedFrame⟩)

end Rbdl.C04
