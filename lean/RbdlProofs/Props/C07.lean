import RbdlProofs.Lemmas.L07Ex
import RbdlProofs.Lemmas.L07Ex2
import RbdlProofs.Lemmas.L07Ex3
/-
  C07 — equivalent model descriptions give identical kinematics and dynamics.

  A  the specialised 3-DoF joints (four Euler orders, `TranslationXYZ`) versus the chain of three
     built-in 1-DoF joints about the same axes, at the level of `jcalc`
       `euler_E_eq_product`, `euler_S_eq_transported_axes`, `euler_vJ_eq_chain`, `euler_cJ_eq_chain`,
       `euler_jcalc_eq_chain`, `translation_jcalc_eq_chain`
  B  three steps of the forward recursion through the chain = one step of the 3-DoF joint
       `chain3_eq_single_step`, `euler_step_eq_chain_steps`, `translation_step_eq_chain_steps`
  C  the three chain torques of `InverseDynamics` = `S₃ᵀ F` of the 3-DoF joint
       `chain_torques`, `euler_chain_torques`, `translation_chain_torques`
  C' whole model: `InverseDynamics` on the model with the 3-DoF joint = on the model with the chain
       `euler_is_composite`, `translation_is_composite`, `multidof_vs_chain_inverseDynamics`,
       `multidof_vs_chain_inverseDynamics_all`, `multidof_vs_chain_nonlinearEffects`,
       `updateKinematics_closed`, `multidof_vs_chain_updateKinematics`
  D  `FloatingBase` = `TranslationXYZ` then `Spherical`      `floatingBase_eq_translation_spherical`
  E  fixed joint versus inertia merged beforehand
       `fixed_joint_mass_properties`, `fixed_joint_vs_merged_body`, `dynamics_read_movable_arrays`,
       `fixed_joint_vs_merged_dynamics`
  F  `RevoluteX` built in / `Revolute` with axis x / user-defined      `revoluteX_three_ways`,
       `revolute_builtin_vs_axis`, `eulerZYX_custom_vs_builtin`
  G  spherical versus Euler joint        `spherical_vs_euler`, `euler_omega_dot`
  H  sibling order / relabelling of bodies
       `relabel_children`, `relabel_rnea`, `relabel_joint_rows`, `relabel_rnea_of_joints`,
       `relabel_nonlinearEffects`, `relabel_updateKinematics`, `sibling_order_relabel`,
       `sibling_order_of_addBody`

  Helper definitions: `L07.EulerChain`, `L07.TransChain` (which joints of the two models correspond),
  `L07.FixedW` (= `FixedAt` of Rbdl/WSInv.lean for joint `i`: the construction-time workspace
  entries), `L07.Kin`, `L07.kstep` (one step of the forward recursion), `L07.chainVJ`, `L07.chainCJ`
  (relative velocity / accumulated velocity-product acceleration of a chain of three joints),
  `L07.kinOf`, `L07.parentKin` (`X_base, v, a` of a body / of what a step reads from the parent),
  `L07.reFNP` (a model with other `mFixedBodies`, names, `previously_added_body_id`),
  `L07.Relabel` (a bijection of body indices commuting with `lambda` and the per-body data),
  `L07.jrow` (what the dynamics use of a joint: `X_λ`, `v_J`, `c_J`, columns of `S`, `S q̈`),
  `L07.twoSiblings`, `L07.swap2` (two single-body siblings added to a parent; exchange of the last two
  indices), `L07.JointEq`, `L07.CoordEq` (same joint up to the position of its coordinates; states agreeing on
  them), `L07.FextEq` (corresponding external forces), `L07.Composite3` (a 3-DoF joint is the composite
  of a chain of three 1-DoF joints at a state), `L07.ChainEmbed` (the bodies of the model with the
  3-DoF joint embedded into those of the model with the chain).

  Findings.
  * `E`, the columns of `S`, `v_J` **and `c_J`** of the Euler joints are polynomial identities in the
    `(cos, sin)` pairs: no unit-circle condition is needed (A).  The circle condition enters only
    when the chain is entered with a moving parent (B, C'): the transforms of the second and third
    chain joint must be rotations (machine-checked counterexample after `chain3_eq_single_step`);
    the first angle and the joint frame are unconstrained for the Euler joints.  For
    `TranslationXYZ` the joint frame must be a rotation + translation (B) because the chain
    transforms are translations, not pure rotations.
  * The whole-model statements C' are for `InverseDynamics` without external forces,
    `NonlinearEffects` and `UpdateKinematics` (the latter for models without custom joints); H is
    proved with external forces.  `CompositeRigidBodyAlgorithm` and `ForwardDynamics` are lifted to
    whole models only for E (fixed joint versus merged body), where all routines coincide.
-/
namespace Rbdl.C07
open Lean.Grind Rbdl Rbdl.Loops Rbdl.L01 Rbdl.L07
set_option linter.unusedVariables false

/-! ## A. `jcalc` of the specialised 3-DoF joints -/
section A
variable {α : Type} [Field α]

/-- A1. `E` of an Euler joint is the product of the three revolute joint transforms, in the order
    of the joint's axes (no condition on the `(cos, sin)` pairs). -/
theorem euler_E_eq_product (e : JT) (he : isEuler e = true) (c0 s0 c1 s1 c2 s2 : α) :
    (⟨eulerE e c0 s0 c1 s1 c2 s2, V3.zero⟩ : XT α)
      = rotJ (eulerAxes e).2.2 c2 s2 * rotJ (eulerAxes e).2.1 c1 s1 * rotJ (eulerAxes e).1 c0 s0 :=
  eulerE_eq e he c0 s0 c1 s1 c2 s2
example : (⟨eulerZYX_E (3/5) (4/5) (5/13) (12/13) (4/5) (3/5), V3.zero⟩ : XT Rat)
    = Xrotx (4/5) (3/5) * Xroty (5/13) (12/13) * Xrotz (3/5) (4/5) :=
  euler_E_eq_product .eulerZYX rfl _ _ _ _ _ _

/-- A2. The columns of `multdof3_S` are the three revolute axes transported into the frame of the
    last body: `X₃ X₂ s₁`, `X₃ s₂`, `s₃`. -/
theorem euler_S_eq_transported_axes (e : JT) (he : isEuler e = true) (c1 s1 c2 s2 : α) :
    eulerS e M63.zero c1 s1 c2 s2
      = ⟨(rotJ (eulerAxes e).2.2 c2 s2).apply ((rotJ (eulerAxes e).2.1 c1 s1).apply
            (axisJ (eulerAxes e).1)),
         (rotJ (eulerAxes e).2.2 c2 s2).apply (axisJ (eulerAxes e).2.1),
         axisJ (eulerAxes e).2.2⟩ :=
  eulerS_eq e he c1 s1 c2 s2
example := euler_S_eq_transported_axes (α := Rat) .eulerYXZ rfl (3/5) (4/5) (5/13) (12/13)

/-- A3. `v_J = S q̇` is the velocity of the last body of the chain relative to the chain's parent. -/
theorem euler_vJ_eq_chain (e : JT) (he : isEuler e = true) (c1 s1 c2 s2 x0 x1 x2 : α) :
    (eulerS e M63.zero c1 s1 c2 s2).mulV3 ⟨x0, x1, x2⟩
      = chainVJ (rotJ (eulerAxes e).2.1 c1 s1) (rotJ (eulerAxes e).2.2 c2 s2)
          (x0 * (axisJ (eulerAxes e).1 : SV α)) (x1 * (axisJ (eulerAxes e).2.1 : SV α))
          (x2 * (axisJ (eulerAxes e).2.2 : SV α)) :=
  eulerVJ_eq e he c1 s1 c2 s2 x0 x1 x2
example := euler_vJ_eq_chain (α := Rat) .eulerXYZ rfl (3/5) (4/5) (5/13) (12/13) 1 (-2) 3

/-- A4. `c_J` is the velocity-product acceleration `X₃ X₂ c₁ + X₃ c₂ + c₃`, `c_k = v_k ×ₘ v_J,k`,
    accumulated by the forward recursion through the chain with the chain's parent at rest
    (a polynomial identity: no condition on the `(cos, sin)` pairs). -/
theorem euler_cJ_eq_chain (e : JT) (he : isEuler e = true) (c1 s1 c2 s2 x0 x1 x2 : α) :
    eulerCJ e c1 s1 c2 s2 x0 x1 x2
      = chainCJ (rotJ (eulerAxes e).2.1 c1 s1) (rotJ (eulerAxes e).2.2 c2 s2)
          (x0 * (axisJ (eulerAxes e).1 : SV α)) SV.zero (x1 * (axisJ (eulerAxes e).2.1 : SV α))
          SV.zero (x2 * (axisJ (eulerAxes e).2.2 : SV α)) SV.zero :=
  eulerCJ_eq e he c1 s1 c2 s2 x0 x1 x2
example := euler_cJ_eq_chain (α := Rat) .eulerZXY rfl (3/5) (4/5) (5/13) (12/13) 1 (-2) 3

/-- A (all four Euler orders). For corresponding joints (`EulerChain`) and workspaces that hold
    the construction-time entries, `jcalc` of the Euler joint gives
    `X_λ = X₃ X₂ X₁`, `S = [X₃ X₂ s₁, X₃ s₂, s₃]`, `v_J` = the chain's relative velocity and
    `c_J` = the chain's accumulated velocity-product term (for every state), where
    `X_k, s_k, v_J,k, c_J,k` are what `jcalc` gives for the three revolute joints. -/
theorem euler_jcalc_eq_chain {mE mC : ModelS α} {i i1 i2 i3 : Nat}
    (h : EulerChain mE i mC i1 i2 i3) (wE w1 w2 w3 : WS α) (st : QS α)
    (qd : VecN α) (hE : FixedW mE wE i) (hw1 : FixedW mC w1 i1) (hw2 : FixedW mC w2 i2)
    (hw3 : FixedW mC w3 i3) :
    let X1 := (jcalc mC w1 i1 st qd).X_lambda i1
    let X2 := (jcalc mC w2 i2 st qd).X_lambda i2
    let X3 := (jcalc mC w3 i3 st qd).X_lambda i3
    (jcalc mE wE i st qd).X_lambda i = X3 * X2 * X1 ∧
    (jcalc mE wE i st qd).S3 i
      = ⟨X3.apply (X2.apply ((jcalc mC w1 i1 st qd).S i1)), X3.apply ((jcalc mC w2 i2 st qd).S i2),
         (jcalc mC w3 i3 st qd).S i3⟩ ∧
    (jcalc mE wE i st qd).v_J i
      = chainVJ X2 X3 ((jcalc mC w1 i1 st qd).v_J i1) ((jcalc mC w2 i2 st qd).v_J i2)
          ((jcalc mC w3 i3 st qd).v_J i3) ∧
    (jcalc mE wE i st qd).c_J i
      = chainCJ X2 X3 ((jcalc mC w1 i1 st qd).v_J i1) ((jcalc mC w1 i1 st qd).c_J i1)
          ((jcalc mC w2 i2 st qd).v_J i2) ((jcalc mC w2 i2 st qd).c_J i2)
          ((jcalc mC w3 i3 st qd).v_J i3) ((jcalc mC w3 i3 st qd).c_J i3) :=
  euler_jcalc h wE w1 w2 w3 st qd hE hw1 hw2 hw3

/-- A (`TranslationXYZ` versus three prismatic joints along x, y, z); here `c_J = 0` on both
    sides and no condition on the state is needed. -/
theorem translation_jcalc_eq_chain {mE mC : ModelS α} {i i1 i2 i3 : Nat}
    (h : TransChain mE i mC i1 i2 i3) (wE w1 w2 w3 : WS α) (st : QS α)
    (qd : VecN α) (hE : FixedW mE wE i) (hw1 : FixedW mC w1 i1) (hw2 : FixedW mC w2 i2)
    (hw3 : FixedW mC w3 i3) :
    let X1 := (jcalc mC w1 i1 st qd).X_lambda i1
    let X2 := (jcalc mC w2 i2 st qd).X_lambda i2
    let X3 := (jcalc mC w3 i3 st qd).X_lambda i3
    (jcalc mE wE i st qd).X_lambda i = X3 * X2 * X1 ∧
    (jcalc mE wE i st qd).S3 i
      = ⟨X3.apply (X2.apply ((jcalc mC w1 i1 st qd).S i1)), X3.apply ((jcalc mC w2 i2 st qd).S i2),
         (jcalc mC w3 i3 st qd).S i3⟩ ∧
    (jcalc mE wE i st qd).v_J i
      = chainVJ X2 X3 ((jcalc mC w1 i1 st qd).v_J i1) ((jcalc mC w2 i2 st qd).v_J i2)
          ((jcalc mC w3 i3 st qd).v_J i3) ∧
    (jcalc mE wE i st qd).c_J i
      = chainCJ X2 X3 ((jcalc mC w1 i1 st qd).v_J i1) ((jcalc mC w1 i1 st qd).c_J i1)
          ((jcalc mC w2 i2 st qd).v_J i2) ((jcalc mC w2 i2 st qd).c_J i2)
          ((jcalc mC w3 i3 st qd).v_J i3) ((jcalc mC w3 i3 st qd).c_J i3) ∧
    (jcalc mE wE i st qd).c_J i = SV.zero :=
  ⟨(trans_jcalc h wE w1 w2 w3 st qd hE hw1 hw2 hw3).1,
   (trans_jcalc h wE w1 w2 w3 st qd hE hw1 hw2 hw3).2.1,
   (trans_jcalc h wE w1 w2 w3 st qd hE hw1 hw2 hw3).2.2.1,
   (trans_jcalc h wE w1 w2 w3 st qd hE hw1 hw2 hw3).2.2.2,
   (jcalc_trans mE wE i st qd h.trans hE).2.2.2⟩

end A

section AEx
open Rbdl.L07.Ex
/-- the models `AddBody` builds for the specialised joint and for the emulated 3-DoF joint about
    the same axes correspond, for all four orders -/
example : EulerChain (mE .eulerZYX) 2 (mC .eulerZYX) 2 3 4 ∧
    EulerChain (mE .eulerXYZ) 2 (mC .eulerXYZ) 2 3 4 ∧
    EulerChain (mE .eulerYXZ) 2 (mC .eulerYXZ) 2 3 4 ∧
    EulerChain (mE .eulerZXY) 2 (mC .eulerZXY) 2 3 4 := ⟨chainZYX, chainXYZ, chainYXZ, chainZXY⟩
example := euler_jcalc_eq_chain chainZYX wE wC wC wC st qd
  (wE_fixed 2 (by decide) (by rw [mE_n]; decide)) (wC_fixed 2 (by decide) (by rw [mC_n]; decide))
  (wC_fixed 3 (by decide) (by rw [mC_n]; decide)) (wC_fixed 4 (by decide) (by rw [mC_n]; decide))
example := translation_jcalc_eq_chain chainT wTE wTC wTC wTC st qd
  (wTE_fixed 2 (by decide) (by rw [mTE_n]; decide)) (wTC_fixed 2 (by decide) (by rw [mTC_n]; decide))
  (wTC_fixed 3 (by decide) (by rw [mTC_n]; decide)) (wTC_fixed 4 (by decide) (by rw [mTC_n]; decide))
end AEx

/-! ## B. Three steps of the forward recursion through the chain = one step of the 3-DoF joint -/
section B
variable {α : Type} [Field α]

/-- B (joint-type independent). Three steps `v = X_λ v(λ) + v_J`, `a = X_λ a(λ) + c_J + v ×ₘ v_J + S q̈`,
    `X_base = X_λ X_base(λ)` through joints whose transforms `X₂`, `X₃` have rotation matrices
    collapse into one step of the composite joint `X₃ X₂ X₁`, with `v_J = chainVJ`, `c_J = chainCJ`,
    `S q̈ = X₃ X₂ S₁q̈₁ + X₃ S₂q̈₂ + S₃q̈₃`, provided `(X₃ X₂ X₁) v = X₃ (X₂ (X₁ v))`
    (`L07.mul_apply3_r0`: true when `X₂`, `X₃` are pure rotations; `L07.mul_apply3_rot`: true when
    `X₁`, `X₂` have rotation matrices). -/
theorem chain3_eq_single_step (X1 X2 X3 : XT α) (h2 : X2.E.IsRot) (h3 : X3.E.IsRot)
    (e1 : ∀ v, (X3 * X2 * X1).apply v = X3.apply (X2.apply (X1.apply v)))
    (vJ1 cJ1 sq1 vJ2 cJ2 sq2 vJ3 cJ3 sq3 : SV α) (p : Kin α) :
    kstep X3 vJ3 cJ3 sq3 (kstep X2 vJ2 cJ2 sq2 (kstep X1 vJ1 cJ1 sq1 p))
      = kstep (X3 * X2 * X1) (chainVJ X2 X3 vJ1 vJ2 vJ3)
          (chainCJ X2 X3 vJ1 cJ1 vJ2 cJ2 vJ3 cJ3)
          (X3.apply (X2.apply sq1) + X3.apply sq2 + sq3) p :=
  kstep3 X1 X2 X3 h2 h3 e1 vJ1 cJ1 sq1 vJ2 cJ2 sq2 vJ3 cJ3 sq3 p
example (vJ1 cJ1 sq1 vJ2 cJ2 sq2 vJ3 cJ3 sq3 : SV Rat) (p : Kin Rat) :=
  chain3_eq_single_step C16.Ex.X (Xroty (3/5) (4/5)) (Xrotx (4/5) (3/5))
    (C16.Xroty_isRot _ _ (by grind)) (C16.Xrotx_isRot _ _ (by grind))
    (mul_apply3_r0 _ _ _ rfl rfl) vJ1 cJ1 sq1 vJ2 cJ2 sq2 vJ3 cJ3 sq3 p

/-- the rotation hypotheses cannot be dropped: with `X₂ = Xroty` at `(cos, sin) = (2, 0)` (a pure
    "rotation" off the unit circle, so the composition hypothesis `e1` still holds by
    `mul_apply3_r0`) the accelerations differ -/
example :
    let p0 : Kin Rat := ⟨XT.id, ⟨⟨1, 0, 0⟩, V3.zero⟩, SV.zero⟩
    let vz : SV Rat := sv6 0 0 1 0 0 0
    let vy : SV Rat := sv6 0 1 0 0 0 0
    let vx : SV Rat := sv6 1 0 0 0 0 0
    (kstep XT.id vx SV.zero SV.zero (kstep (Xroty 2 0) vy SV.zero SV.zero
        (kstep XT.id vz SV.zero SV.zero p0))).a.w.y
      ≠ (kstep (XT.id * Xroty 2 0 * XT.id) (chainVJ (Xroty 2 0) XT.id vz vy vx)
          (chainCJ (Xroty 2 0) XT.id vz SV.zero vy SV.zero vx SV.zero)
          (XT.id.apply ((Xroty 2 0).apply SV.zero) + XT.id.apply SV.zero + SV.zero) p0).a.w.y := by
  decide +kernel

/-- B (all four Euler orders). From the same `X_base`, `v`, `a` of the parent, one iteration of the
    `UpdateKinematics` loop on the Euler joint leaves in body `i` the `X_base`, `v`, `a` that three
    iterations on the chain `i₁ → i₂ → i₃` leave in body `i₃`, for all `q`, `q̇`, `q̈` with the second
    and third angle given by points of the unit circle. -/
theorem euler_step_eq_chain_steps {mE mC : ModelS α} {i i1 i2 i3 : Nat}
    (h : EulerChain mE i mC i1 i2 i3) (wE wC : WS α) (st : QS α)
    (qd qdd : VecN α) (hE : FixedW mE wE i) (hw1 : FixedW mC wC i1) (hw2 : FixedW mC wC i2)
    (hw3 : FixedW mC wC i3)
    (h12 : i1 ≠ i2) (h13 : i1 ≠ i3) (h23 : i2 ≠ i3) (n1 : i1 ≠ 0) (n2 : i2 ≠ 0)
    (l2 : mC.lam i2 = i1) (l3 : mC.lam i3 = i2)
    (hc1 : st.c ((mE.joint i).qIndex + 1) * st.c ((mE.joint i).qIndex + 1)
      + st.s ((mE.joint i).qIndex + 1) * st.s ((mE.joint i).qIndex + 1) = 1)
    (hc2 : st.c ((mE.joint i).qIndex + 2) * st.c ((mE.joint i).qIndex + 2)
      + st.s ((mE.joint i).qIndex + 2) * st.s ((mE.joint i).qIndex + 2) = 1)
    (hp : parentKin mE wE i = parentKin mC wC i1) :
    kinOf (L06.ukBody mE st qd qdd i wE) i
      = kinOf (L06.ukBody mC st qd qdd i3 (L06.ukBody mC st qd qdd i2
          (L06.ukBody mC st qd qdd i1 wC))) i3 :=
  euler_ukBody h wE wC st qd qdd hE hw1 hw2 hw3 h12 h13 h23 n1 n2 l2 l3 hc1 hc2 hp

/-- B (`TranslationXYZ`; the joint frame must be a rotation + translation). -/
theorem translation_step_eq_chain_steps {mE mC : ModelS α} {i i1 i2 i3 : Nat}
    (h : TransChain mE i mC i1 i2 i3) (wE wC : WS α) (st : QS α)
    (qd qdd : VecN α) (hE : FixedW mE wE i) (hw1 : FixedW mC wC i1) (hw2 : FixedW mC wC i2)
    (hw3 : FixedW mC wC i3)
    (h12 : i1 ≠ i2) (h13 : i1 ≠ i3) (h23 : i2 ≠ i3) (n1 : i1 ≠ 0) (n2 : i2 ≠ 0)
    (l2 : mC.lam i2 = i1) (l3 : mC.lam i3 = i2)
    (hrot : (mE.XT_ i).E.IsRot)
    (hp : parentKin mE wE i = parentKin mC wC i1) :
    kinOf (L06.ukBody mE st qd qdd i wE) i
      = kinOf (L06.ukBody mC st qd qdd i3 (L06.ukBody mC st qd qdd i2
          (L06.ukBody mC st qd qdd i1 wC))) i3 :=
  trans_ukBody h wE wC st qd qdd hE hw1 hw2 hw3 h12 h13 h23 n1 n2 l2 l3 hrot hp

end B

section BEx
open Rbdl.L07.Ex
example := euler_step_eq_chain_steps chainZYX wE wC st qd qdd
  (wE_fixed 2 (by decide) (by rw [mE_n]; decide)) (wC_fixed 2 (by decide) (by rw [mC_n]; decide))
  (wC_fixed 3 (by decide) (by rw [mC_n]; decide)) (wC_fixed 4 (by decide) (by rw [mC_n]; decide))
  (by decide) (by decide) (by decide) (by decide) (by decide) (by decide +kernel) (by decide +kernel)
  (st_unit _) (st_unit _) parent_eq
example := translation_step_eq_chain_steps chainT wTE wTC st qd qdd
  (wTE_fixed 2 (by decide) (by rw [mTE_n]; decide)) (wTC_fixed 2 (by decide) (by rw [mTC_n]; decide))
  (wTC_fixed 3 (by decide) (by rw [mTC_n]; decide)) (wTC_fixed 4 (by decide) (by rw [mTC_n]; decide))
  (by decide) (by decide) (by decide) (by decide) (by decide) (by decide +kernel) (by decide +kernel)
  (by rw [show mTE.XT_ 2 = C16.Ex.X from by decide +kernel]; exact C16.Ex.X_isRot) parentT_eq
end BEx

/-! ## C. Inverse dynamics: the three chain torques are `S₃ᵀ F` of the 3-DoF joint -/
section C
variable {α : Type} [Field α]

/-- C (joint-type independent). In the backward pass, a chain `i₁ → i₂ → i₃` of 1-DoF joints whose
    bodies `i₁`, `i₂` carry no force of their own (`f = 0` after the forward pass) and have no
    other children gets the generalized forces `Sᵀ F`: `F` the accumulated force of body `i₃`,
    `S = [X₃ X₂ s₁, X₃ s₂, s₃]` the axes transported into the frame of `i₃`. -/
theorem chain_torques (m : ModelS α) (htree : ∀ i, 1 ≤ i → i < m.nBodies → m.lam i < i) (W : WS α)
    (tau : VecN α)
    (hdisj : ∀ i j x, 1 ≤ i → i < m.nBodies → 1 ≤ j → j < m.nBodies →
      owns m W i x → owns m W j x → i = j)
    (i1 i2 i3 : Nat) (b1 : 1 ≤ i1 ∧ i1 < m.nBodies) (b2 : 1 ≤ i2 ∧ i2 < m.nBodies)
    (b3 : 1 ≤ i3 ∧ i3 < m.nBodies)
    (a1 : m.arity i1 = .one) (a2 : m.arity i2 = .one) (a3 : m.arity i3 = .one)
    (f1 : W.f i1 = SV.zero) (f2 : W.f i2 = SV.zero)
    (ch1 : childrenOf m.lam (m.nBodies - 1) i1 = [i2])
    (ch2 : childrenOf m.lam (m.nBodies - 1) i2 = [i3]) :
    (⟨(rneaBackward m W tau).2 (m.joint i1).qIndex, (rneaBackward m W tau).2 (m.joint i2).qIndex,
      (rneaBackward m W tau).2 (m.joint i3).qIndex⟩ : V3 α)
      = M63.tmulSV ⟨(W.X_lambda i3).apply ((W.X_lambda i2).apply (W.S i1)),
          (W.X_lambda i3).apply (W.S i2), W.S i3⟩ (rneaFtot m W i3) :=
  chain_tau m htree W tau hdisj i1 i2 i3 b1 b2 b3 a1 a2 a3 f1 f2 ch1 ch2

/-- a massless body (virtual, or zero spatial inertia) carries no body force -/
theorem massless_body_force (m : ModelS α) (w : WS α) (i : Nat)
    (h : (m.body i).isVirtual = true ∨ m.rbi i = RBI.zero) : bodyForce m w i = SV.zero :=
  bodyForce_massless m w i h

/-- C (all four Euler orders). `InverseDynamics` on a well-formed model containing the chain
    (massless intermediate bodies without other children and without external force) writes to
    the three chain coordinates `S₃ᵀ F`, where `S₃` is the motion subspace `jcalc` computes for the
    Euler joint at the same angles and `F` is the accumulated force of the last chain body — the
    same expression `C01.rnea_tau_three` gives for the Euler joint itself. -/
theorem euler_chain_torques {mE mC : ModelS α} {i i1 i2 i3 : Nat}
    (h : EulerChain mE i mC i1 i2 i3) (hwf : mC.WF) (hc : CustomInj mC)
    (harity : ∀ j, 1 ≤ j → j < mC.nBodies → mC.arity j ≠ .other)
    (wE w : WS α) (st : QS α) (qd qdd tau : VecN α) (fext : Option (Nat → SV α))
    (hE : FixedW mE wE i) (hw1 : FixedW mC w i1) (hw2 : FixedW mC w i2) (hw3 : FixedW mC w i3)
    (b1 : 1 ≤ i1 ∧ i1 < mC.nBodies) (b2 : 1 ≤ i2 ∧ i2 < mC.nBodies)
    (b3 : 1 ≤ i3 ∧ i3 < mC.nBodies)
    (m1 : (mC.body i1).isVirtual = true ∨ mC.rbi i1 = RBI.zero)
    (m2 : (mC.body i2).isVirtual = true ∨ mC.rbi i2 = RBI.zero)
    (fe : ∀ g, fext = some g → g i1 = SV.zero ∧ g i2 = SV.zero)
    (ch1 : childrenOf mC.lam (mC.nBodies - 1) i1 = [i2])
    (ch2 : childrenOf mC.lam (mC.nBodies - 1) i2 = [i3]) :
    (⟨(inverseDynamics mC w st qd qdd tau fext).2 (mE.joint i).qIndex,
      (inverseDynamics mC w st qd qdd tau fext).2 ((mE.joint i).qIndex + 1),
      (inverseDynamics mC w st qd qdd tau fext).2 ((mE.joint i).qIndex + 2)⟩ : V3 α)
      = ((jcalc mE wE i st qd).S3 i).tmulSV
          (rneaFtot mC (idForward mC w st qd qdd fext) i3) :=
  euler_chain_tau h hwf hc harity wE w st qd qdd tau fext hE hw1 hw2 hw3 b1 b2 b3 m1 m2 fe ch1 ch2

/-- C (`TranslationXYZ`). -/
theorem translation_chain_torques {mE mC : ModelS α} {i i1 i2 i3 : Nat}
    (h : TransChain mE i mC i1 i2 i3) (hwf : mC.WF) (hc : CustomInj mC)
    (harity : ∀ j, 1 ≤ j → j < mC.nBodies → mC.arity j ≠ .other)
    (wE w : WS α) (st : QS α) (qd qdd tau : VecN α) (fext : Option (Nat → SV α))
    (hE : FixedW mE wE i) (hw1 : FixedW mC w i1) (hw2 : FixedW mC w i2) (hw3 : FixedW mC w i3)
    (b1 : 1 ≤ i1 ∧ i1 < mC.nBodies) (b2 : 1 ≤ i2 ∧ i2 < mC.nBodies)
    (b3 : 1 ≤ i3 ∧ i3 < mC.nBodies)
    (m1 : (mC.body i1).isVirtual = true ∨ mC.rbi i1 = RBI.zero)
    (m2 : (mC.body i2).isVirtual = true ∨ mC.rbi i2 = RBI.zero)
    (fe : ∀ g, fext = some g → g i1 = SV.zero ∧ g i2 = SV.zero)
    (ch1 : childrenOf mC.lam (mC.nBodies - 1) i1 = [i2])
    (ch2 : childrenOf mC.lam (mC.nBodies - 1) i2 = [i3]) :
    (⟨(inverseDynamics mC w st qd qdd tau fext).2 (mE.joint i).qIndex,
      (inverseDynamics mC w st qd qdd tau fext).2 ((mE.joint i).qIndex + 1),
      (inverseDynamics mC w st qd qdd tau fext).2 ((mE.joint i).qIndex + 2)⟩ : V3 α)
      = ((jcalc mE wE i st qd).S3 i).tmulSV
          (rneaFtot mC (idForward mC w st qd qdd fext) i3) :=
  trans_chain_tau h hwf hc harity wE w st qd qdd tau fext hE hw1 hw2 hw3 b1 b2 b3 m1 m2 fe ch1 ch2

end C

section CEx
open Rbdl.L07.Ex
example := massless_body_force (mC .eulerZYX) wC 2 (Or.inl (by decide +kernel))
example := euler_chain_torques chainZYX mC_wf mC_customInj mC_arity wE wC st qd qdd qd
  (some fun j => if j = 4 then ⟨⟨1, 2, 3⟩, ⟨4, 5, 6⟩⟩ else SV.zero)
  (wE_fixed 2 (by decide) (by rw [mE_n]; decide)) (wC_fixed 2 (by decide) (by rw [mC_n]; decide))
  (wC_fixed 3 (by decide) (by rw [mC_n]; decide)) (wC_fixed 4 (by decide) (by rw [mC_n]; decide))
  ⟨by decide, by rw [mC_n]; decide⟩ ⟨by decide, by rw [mC_n]; decide⟩
  ⟨by decide, by rw [mC_n]; decide⟩ (Or.inl (by decide +kernel)) (Or.inl (by decide +kernel))
  (fun g hg => by cases hg; exact ⟨rfl, rfl⟩) (by decide +kernel) (by decide +kernel)
example := translation_chain_torques chainT mTC_wf mTC_customInj mTC_arity wTE wTC st qd qdd qd none
  (wTE_fixed 2 (by decide) (by rw [mTE_n]; decide)) (wTC_fixed 2 (by decide) (by rw [mTC_n]; decide))
  (wTC_fixed 3 (by decide) (by rw [mTC_n]; decide)) (wTC_fixed 4 (by decide) (by rw [mTC_n]; decide))
  ⟨by decide, by rw [mTC_n]; decide⟩ ⟨by decide, by rw [mTC_n]; decide⟩
  ⟨by decide, by rw [mTC_n]; decide⟩ (Or.inl (by decide +kernel)) (Or.inl (by decide +kernel))
  (fun g hg => nomatch hg) (by decide +kernel) (by decide +kernel)
end CEx

/-! ## C'. Whole model: 3-DoF joint versus chain, `InverseDynamics` -/
section C'
variable {α : Type} [Field α]

/-- An Euler joint is the composite of the corresponding chain of revolute joints at every state
    whose second and third angle are points of the unit circle (A and B in one bundle). -/
theorem euler_is_composite {mE mC : ModelS α} {i i1 i2 i3 : Nat}
    (h : EulerChain mE i mC i1 i2 i3) (wE wC : WS α) (st : QS α) (qd : VecN α)
    (hE : FixedW mE wE i) (hw1 : FixedW mC wC i1) (hw2 : FixedW mC wC i2) (hw3 : FixedW mC wC i3)
    (hc1 : st.c ((mE.joint i).qIndex + 1) * st.c ((mE.joint i).qIndex + 1)
      + st.s ((mE.joint i).qIndex + 1) * st.s ((mE.joint i).qIndex + 1) = 1)
    (hc2 : st.c ((mE.joint i).qIndex + 2) * st.c ((mE.joint i).qIndex + 2)
      + st.s ((mE.joint i).qIndex + 2) * st.s ((mE.joint i).qIndex + 2) = 1) :
    Composite3 mE i mC i1 i2 i3 wE wC st qd :=
  composite3_of_euler h wE wC st qd hE hw1 hw2 hw3 hc1 hc2

/-- `TranslationXYZ` is the composite of the chain of prismatic joints (joint frame a rotation). -/
theorem translation_is_composite {mE mC : ModelS α} {i i1 i2 i3 : Nat}
    (h : TransChain mE i mC i1 i2 i3) (wE wC : WS α) (st : QS α) (qd : VecN α)
    (hE : FixedW mE wE i) (hw1 : FixedW mC wC i1) (hw2 : FixedW mC wC i2) (hw3 : FixedW mC wC i3)
    (hrot : (mE.XT_ i).E.IsRot) :
    Composite3 mE i mC i1 i2 i3 wE wC st qd :=
  composite3_of_trans h wE wC st qd hE hw1 hw2 hw3 hrot

/-- C' (whole model). Let `mE` contain a 3-DoF joint at body `iE` that is the composite of the chain
    `i₁ → i₂ → i₃` of `mC` (`Composite3`), the bodies of `mE` being embedded by `φ` into those of
    `mC` with `iE ↦ i₃`, the two extra bodies `i₁`, `i₂` massless (`ChainEmbed`), and let the joint rows
    of all other corresponding joints agree.  Then `InverseDynamics` (same `q, q̇, q̈`, no external
    forces) gives: the same `v`, `a`, `f` and accumulated force in corresponding bodies, the same
    generalized forces of the other joints, and the same three generalized forces at the
    coordinates of the 3-DoF joint / of the chain. -/
theorem multidof_vs_chain_inverseDynamics {mE mC : ModelS α} {φ ψ : Nat → Nat}
    {iE i1 i2 i3 : Nat} (C : ChainEmbed mE mC φ ψ iE i1 i2 i3)
    (hwf : mE.WF) (hwf' : mC.WF) (hc : CustomInj mE) (hc' : CustomInj mC)
    (wE wC : WS α) (st : QS α) (qd qdd tau tau' : VecN α)
    (K : Composite3 mE iE mC i1 i2 i3 wE wC st qd)
    (hrow : ∀ i, 1 ≤ i → i < mE.nBodies → i ≠ iE →
      jrow mC wC (φ i) st qd qdd = jrow mE wE i st qd qdd) :
    (∀ i, 1 ≤ i → i < mE.nBodies →
      (idForward mC wC st qd qdd none).v (φ i) = (idForward mE wE st qd qdd none).v i ∧
      (idForward mC wC st qd qdd none).a (φ i) = (idForward mE wE st qd qdd none).a i ∧
      (idForward mC wC st qd qdd none).f (φ i) = (idForward mE wE st qd qdd none).f i ∧
      rneaFtot mC (idForward mC wC st qd qdd none) (φ i)
        = rneaFtot mE (idForward mE wE st qd qdd none) i) ∧
    (∀ i d, 1 ≤ i → i < mE.nBodies → i ≠ iE → d < (mE.joint i).dof →
      (inverseDynamics mC wC st qd qdd tau' none).2 ((mC.joint (φ i)).qIndex + d)
        = (inverseDynamics mE wE st qd qdd tau none).2 ((mE.joint i).qIndex + d)) ∧
    (∀ d, d < 3 →
      (inverseDynamics mC wC st qd qdd tau' none).2 ((mE.joint iE).qIndex + d)
        = (inverseDynamics mE wE st qd qdd tau none).2 ((mE.joint iE).qIndex + d)) :=
  embed_inverseDynamics C hwf hwf' hc hc' wE wC st qd qdd tau tau' K hrow

/-- C' (all entries). If moreover corresponding joints use the same coordinates (as in the models
    `AddBody` builds), the two `tau` vectors agree on every entry below `dofCount`. -/
theorem multidof_vs_chain_inverseDynamics_all {mE mC : ModelS α} {φ ψ : Nat → Nat}
    {iE i1 i2 i3 : Nat} (C : ChainEmbed mE mC φ ψ iE i1 i2 i3)
    (hwf : mE.WF) (hwf' : mC.WF) (hc : CustomInj mE) (hc' : CustomInj mC)
    (wE wC : WS α) (st : QS α) (qd qdd tau tau' : VecN α)
    (K : Composite3 mE iE mC i1 i2 i3 wE wC st qd)
    (hrow : ∀ i, 1 ≤ i → i < mE.nBodies → i ≠ iE →
      jrow mC wC (φ i) st qd qdd = jrow mE wE i st qd qdd)
    (hq : ∀ i, 1 ≤ i → i < mE.nBodies → i ≠ iE → (mC.joint (φ i)).qIndex = (mE.joint i).qIndex)
    (k : Nat) (hk : k < mE.dofCount) :
    (inverseDynamics mC wC st qd qdd tau' none).2 k
      = (inverseDynamics mE wE st qd qdd tau none).2 k :=
  embed_inverseDynamics_all C hwf hwf' hc hc' wE wC st qd qdd tau tau' K hrow hq k hk

/-- closed form of `UpdateKinematics` (tree order, supported arities, no custom joints): `a[0] = 0`
    and every body holds one step of the forward recursion (`kstep`) with the joint row that
    `jcalc` computes from the entry workspace, applied to the final values of its parent. -/
theorem updateKinematics_closed (m : ModelS α)
    (htree : ∀ i, 1 ≤ i → i < m.nBodies → m.lam i < i)
    (har : ∀ i, 1 ≤ i → i < m.nBodies → m.arity i ≠ .other)
    (hnc : ∀ i, 1 ≤ i → i < m.nBodies → (m.joint i).jt ≠ .custom)
    (w : WS α) (st : QS α) (qd qdd : VecN α) :
    UkClosed m st qd qdd w (updateKinematics m w st qd qdd) :=
  uk_closed m htree har hnc w st qd qdd

/-- C' (kinematics, whole model). `UpdateKinematics` on the model with the 3-DoF joint and on the
    model with the chain leaves the same `X_base`, `v`, `a` in corresponding bodies (the Euler body
    corresponds to the last chain body), for every state at which the joint is the composite of
    the chain. -/
theorem multidof_vs_chain_updateKinematics {mE mC : ModelS α} {φ ψ : Nat → Nat}
    {iE i1 i2 i3 : Nat} (C : ChainEmbed mE mC φ ψ iE i1 i2 i3)
    (hncE : ∀ i, 1 ≤ i → i < mE.nBodies → (mE.joint i).jt ≠ .custom)
    (hncC : ∀ i, 1 ≤ i → i < mC.nBodies → (mC.joint i).jt ≠ .custom)
    (wE wC : WS α) (st : QS α) (qd qdd : VecN α)
    (K : Composite3 mE iE mC i1 i2 i3 wE wC st qd)
    (hrow : ∀ i, 1 ≤ i → i < mE.nBodies → i ≠ iE →
      jrow mC wC (φ i) st qd qdd = jrow mE wE i st qd qdd) :
    ∀ i, 1 ≤ i → i < mE.nBodies →
      kinOf (updateKinematics mC wC st qd qdd) (φ i) = kinOf (updateKinematics mE wE st qd qdd) i :=
  embed_updateKinematics C hncE hncC wE wC st qd qdd K hrow

end C'

section C'NE
variable {α : Type} [Field α] [DecidableEq α]

/-- C' (`NonlinearEffects`). The same for `NonlinearEffects` (= `InverseDynamics` with `q̈ = 0`, C01):
    the Coriolis / centrifugal / gravity terms of the two models agree entry by entry. -/
theorem multidof_vs_chain_nonlinearEffects {mE mC : ModelS α} {φ ψ : Nat → Nat}
    {iE i1 i2 i3 : Nat} (C : ChainEmbed mE mC φ ψ iE i1 i2 i3)
    (hwf : mE.WF) (hwf' : mC.WF) (hc : CustomInj mE) (hc' : CustomInj mC)
    (hperm : (mE.updateOrder.drop 1).Perm (List.range' 1 (mE.nBodies - 1)))
    (hperm' : (mC.updateOrder.drop 1).Perm (List.range' 1 (mC.nBodies - 1)))
    (hdc : mC.dofCount = mE.dofCount)
    (wE wC : WS α) (st : QS α) (qd tau tau' : VecN α)
    (hokE : ∀ i, 1 ≤ i → i < mE.nBodies → JointOK mE i)
    (hokC : ∀ i, 1 ≤ i → i < mC.nBodies → JointOK mC i)
    (hwE : ∀ i, 1 ≤ i → i < mE.nBodies → FixedW mE wE i)
    (hwC : ∀ i, 1 ≤ i → i < mC.nBodies → FixedW mC wC i)
    (K : Composite3 mE iE mC i1 i2 i3 wE wC st qd)
    (hrow : ∀ i, 1 ≤ i → i < mE.nBodies → i ≠ iE →
      jrow mC wC (φ i) st qd zeroVec = jrow mE wE i st qd zeroVec)
    (hq : ∀ i, 1 ≤ i → i < mE.nBodies → i ≠ iE → (mC.joint (φ i)).qIndex = (mE.joint i).qIndex)
    (k : Nat) (hk : k < mE.dofCount) :
    (nonlinearEffects mC wC st qd tau' none).2 k = (nonlinearEffects mE wE st qd tau none).2 k :=
  embed_nonlinearEffects C hwf hwf' hc hc' hperm hperm' hdc wE wC st qd tau tau' hokE hokC hwE hwC
    K hrow hq k hk

end C'NE

section C'Ex
open Rbdl.L07.Ex3
/-- base, Euler-ZYX joint / emulated 3-DoF joint about z, y, x, and a further body on it:
    for every state with the Euler angles 2 and 3 on the unit circle, every `q̇`, `q̈`, incoming `tau` -/
example (st : QS Rat) (qd qdd tau tau' : VecN Rat)
    (h1 : st.c 2 * st.c 2 + st.s 2 * st.s 2 = 1) (h2 : st.c 3 * st.c 3 + st.s 3 * st.s 3 = 1) :=
  multidof_vs_chain_inverseDynamics embed mE3_wf mC3_wf mE3_ci mC3_ci wE3 wC3 st qd qdd tau tau'
    (composite st qd h1 h2) (rows st qd qdd)
example := composite L07.Ex.st L07.Ex.qd (L07.Ex.st_unit 2) (L07.Ex.st_unit 3)
example := translation_is_composite L07.Ex.chainT L07.Ex.wTE L07.Ex.wTC L07.Ex.st L07.Ex.qd
  (L07.Ex.wTE_fixed 2 (by decide) (by rw [L07.Ex.mTE_n]; decide))
  (L07.Ex.wTC_fixed 2 (by decide) (by rw [L07.Ex.mTC_n]; decide))
  (L07.Ex.wTC_fixed 3 (by decide) (by rw [L07.Ex.mTC_n]; decide))
  (L07.Ex.wTC_fixed 4 (by decide) (by rw [L07.Ex.mTC_n]; decide))
  (by rw [show L07.Ex.mTE.XT_ 2 = C16.Ex.X from by decide +kernel]; exact C16.Ex.X_isRot)
example (st : QS Rat) (qd qdd tau tau' : VecN Rat)
    (h1 : st.c 2 * st.c 2 + st.s 2 * st.s 2 = 1) (h2 : st.c 3 * st.c 3 + st.s 3 * st.s 3 = 1)
    (k : Nat) (hk : k < mE3.dofCount) :=
  multidof_vs_chain_inverseDynamics_all embed mE3_wf mC3_wf mE3_ci mC3_ci wE3 wC3 st qd qdd tau tau'
    (composite st qd h1 h2) (rows st qd qdd) sameq k hk
example (st : QS Rat) (qd qdd : VecN Rat) :=
  updateKinematics_closed mC3 mC3_wf.lam_lt (embed_arity embed (composite L07.Ex.st qd
    (L07.Ex.st_unit 2) (L07.Ex.st_unit 3))) mC3_nc wC3 st qd qdd
example (st : QS Rat) (qd qdd : VecN Rat)
    (h1 : st.c 2 * st.c 2 + st.s 2 * st.s 2 = 1) (h2 : st.c 3 * st.c 3 + st.s 3 * st.s 3 = 1) :=
  multidof_vs_chain_updateKinematics embed mE3_nc mC3_nc wE3 wC3 st qd qdd (composite st qd h1 h2)
    (rows st qd qdd)
example (st : QS Rat) (qd tau tau' : VecN Rat)
    (h1 : st.c 2 * st.c 2 + st.s 2 * st.s 2 = 1) (h2 : st.c 3 * st.c 3 + st.s 3 * st.s 3 = 1)
    (k : Nat) (hk : k < mE3.dofCount) :=
  multidof_vs_chain_nonlinearEffects embed mE3_wf mC3_wf mE3_ci mC3_ci mE3_perm mC3_perm
    (by decide +kernel) wE3 wC3 st qd tau tau' mE3_ok mC3_ok wE3_fixed wC3_fixed
    (composite st qd h1 h2) (rows st qd zeroVec) sameq k hk
end C'Ex

/-! ## D. `FloatingBase` = `TranslationXYZ` followed by `Spherical` -/
section D
variable {α : Type} [Field α] [DecidableEq α]

/-- D. `AddBody` with a `FloatingBase` joint is, literally, `AddBody` of an unnamed massless virtual
    body through a `TranslationXYZ` joint (same parent, same joint frame) followed by `AddBody` of
    the body itself on that virtual body through a `Spherical` joint with the identity frame: the
    resulting `ModelS` and the returned id are identical (the name check happens once, first). -/
theorem floatingBase_eq_translation_spherical (m : ModelS α) (parent : Nat) (frame : XT α)
    (j : Joint α) (b : Body α) (name : String) (hj : j.jt = .floatingBase) (jT jS : Joint α)
    (hT : Joint.ofType .translationXYZ = some jT) (hS : Joint.ofType .spherical = some jS) :
    m.addBody parent frame j b name =
      if name ≠ "" ∧ m.hasName name then (m, .error .duplicateName)
      else match m.addBody parent frame jT ModelS.nullBody "" with
        | (m1, .ok id) => m1.addBody id XT.id jS b name
        | r => r :=
  floatingBase_eq m parent frame j b name hj jT jS hT hS

example := floatingBase_eq_translation_spherical (ModelS.init : ModelS Rat) 0 Ex.frame
  ⟨.floatingBase, [], 0, 0, noCustom⟩ Ex.body "pelvis" rfl _ _ rfl rfl

end D

/-! ## E. A body attached by a fixed joint versus its inertia merged into the parent beforehand -/
section E
variable {α : Type} [Field α] [DecidableEq α]

/-- E1. `AddBody` with a fixed joint on a movable body `parent`: the parent's mass properties
    become `Body.join`, i.e. (C15) its spatial inertia becomes `I_parent + Xᵀ I_b X`; every other
    array the dynamics read is unchanged. -/
theorem fixed_joint_mass_properties (m : ModelS α) (parent : Nat) (frame : XT α) (j : Joint α)
    (b : Body α) (name : String) (m1 : ModelS α) (id : Nat) (hj : j.jt = .fixed)
    (hp : parent < fixedDisc) (hadd : m.addBody parent frame j b name = (m1, .ok id)) :
    ∃ pb, (m.body parent).join frame b = some pb ∧
      m1.bodies = m.bodies.set parent pb ∧ m1.I = m.I.set parent pb.toRBI ∧
      (frame.E.IsRot → pb.toRBI = (m.body parent).toRBI + frame.applyTransposeRBI b.toRBI) ∧
      m1.lambda = m.lambda ∧ m1.xT = m.xT ∧ m1.joints = m.joints ∧ m1.mu = m.mu ∧
      m1.w3Index = m.w3Index ∧ m1.customJoints = m.customJoints ∧
      m1.updateOrder = m.updateOrder ∧ m1.gravity = m.gravity ∧ m1.dofCount = m.dofCount ∧
      m1.qSize = m.qSize ∧ m1.qdotSize = m.qdotSize ∧ m1.lambdaQ = m.lambdaQ :=
  fixed_mass_props m parent frame j b name m1 id hj hp hadd

/-- E2. Adding a body through a joint that gets its own movable body and then a second body on it
    through a fixed joint gives the same model as adding the joined body directly, except for the
    three fields that only record the fixed body (`mFixedBodies`, the name table,
    `previously_added_body_id`): all movable-body arrays (`lambda`, `X_T`, joints, bodies, `I`, `mu`,
    counters, update order …) are identical. -/
theorem fixed_joint_vs_merged_body (m : ModelS α) (p : Nat) (X : XT α) (j : Joint α)
    (bP : Body α) (nP : String) (XF : XT α) (jF : Joint α) (bF : Body α) (nF : String)
    (m1 m2 : ModelS α) (n fid : Nat) (hk : j.jt.kind = .single) (hF : jF.jt = .fixed)
    (hI : m.I.length = m.bodies.length) (hn : m.bodies.length < fixedDisc)
    (h1 : m.addBody p X j bP nP = (m1, .ok n))
    (h2 : m1.addBody n XF jF bF nF = (m2, .ok fid)) :
    ∃ pb, bP.join XF bF = some pb ∧
      ∃ m1', m.addBody p X j pb nP = (m1', .ok n) ∧
        m2 = reFNP m1' m2.fixedBodies m2.names m2.prevBodyId := by
  rw [addBody_single _ _ _ _ _ _ hk] at h1
  rw [ModelS.addBody_fixed _ _ _ _ _ _ hF] at h2
  obtain ⟨pb, h3, m1', h4, h5⟩ := fixed_vs_merged m p X j bP nP XF bF nF m1 m2 n fid hI hn h1 h2
  exact ⟨pb, h3, m1', by rw [addBody_single _ _ _ _ _ _ hk]; exact h4, h5⟩

/-- E3 (congruence). The dynamics and kinematics routines read the model only through the
    movable-body arrays: replacing `mFixedBodies`, the name table and `previously_added_body_id`
    changes none of them (kinematic queries: for ids of movable bodies). -/
theorem dynamics_read_movable_arrays (m : ModelS α) (f : List (FixedBody α))
    (n : List (String × Nat)) (p : Nat) :
    inverseDynamics (reFNP m f n p) = inverseDynamics m ∧
    nonlinearEffects (reFNP m f n p) = nonlinearEffects m ∧
    crba (reFNP m f n p) = crba m ∧
    forwardDynamics (reFNP m f n p) = forwardDynamics m ∧
    calcMInvTimesTau (reFNP m f n p) = calcMInvTimesTau m ∧
    updateKinematics (reFNP m f n p) = updateKinematics m ∧
    updateKinematicsCustom (reFNP m f n p) = updateKinematicsCustom m ∧
    (∀ (w : WS α) (st : QS α) (id : Nat), id < fixedDisc →
      calcBodyToBaseCoordinates (reFNP m f n p) w st id = calcBodyToBaseCoordinates m w st id ∧
      calcPointJacobian (reFNP m f n p) w st id = calcPointJacobian m w st id ∧
      (∀ qd, calcPointVelocity6D (reFNP m f n p) w st qd id = calcPointVelocity6D m w st qd id) ∧
      (∀ qd qdd, calcPointAcceleration6D (reFNP m f n p) w st qd qdd id
        = calcPointAcceleration6D m w st qd qdd id)) :=
  ⟨reFNP_inverseDynamics m f n p, reFNP_nonlinearEffects m f n p, reFNP_crba m f n p,
   reFNP_forwardDynamics m f n p, reFNP_calcMInvTimesTau m f n p, reFNP_updateKinematics m f n p,
   reFNP_updateKinematicsCustom m f n p, fun w st id h =>
     ⟨reFNP_calcBodyToBaseCoordinates m f n p w st id h, reFNP_calcPointJacobian m f n p w st id h,
      fun qd => reFNP_calcPointVelocity6D m f n p w st qd id h,
      fun qd qdd => reFNP_calcPointAcceleration6D m f n p w st qd qdd id h⟩⟩

/-- E (summary). The model with the fixed-joint body and the model built with the merged body give
    identical results of every dynamics routine, for every workspace, state and input. -/
theorem fixed_joint_vs_merged_dynamics (m : ModelS α) (p : Nat) (X : XT α) (j : Joint α)
    (bP : Body α) (nP : String) (XF : XT α) (jF : Joint α) (bF : Body α) (nF : String)
    (m1 m2 : ModelS α) (n fid : Nat) (hk : j.jt.kind = .single) (hF : jF.jt = .fixed)
    (hI : m.I.length = m.bodies.length) (hn : m.bodies.length < fixedDisc)
    (h1 : m.addBody p X j bP nP = (m1, .ok n))
    (h2 : m1.addBody n XF jF bF nF = (m2, .ok fid)) :
    ∃ pb m1', bP.join XF bF = some pb ∧ m.addBody p X j pb nP = (m1', .ok n) ∧
      inverseDynamics m2 = inverseDynamics m1' ∧ nonlinearEffects m2 = nonlinearEffects m1' ∧
      crba m2 = crba m1' ∧ forwardDynamics m2 = forwardDynamics m1' ∧
      calcMInvTimesTau m2 = calcMInvTimesTau m1' ∧ updateKinematics m2 = updateKinematics m1' := by
  obtain ⟨pb, h3, m1', h4, h5⟩ :=
    fixed_joint_vs_merged_body m p X j bP nP XF jF bF nF m1 m2 n fid hk hF hI hn h1 h2
  obtain ⟨e1, e2, e3, e4, e5, e6, _⟩ :=
    dynamics_read_movable_arrays m1' m2.fixedBodies m2.names m2.prevBodyId
  refine ⟨pb, m1', h3, h4, ?_⟩
  rw [h5]
  exact ⟨e1, e2, e3, e4, e5, e6⟩

end E

section EEx
open Rbdl.L07.Ex
example := fixed_joint_mass_properties mP 1 C16.Ex.Y jfix bodyF "f" mPF fixedDisc rfl (by decide)
  ex_add2
example := fixed_joint_vs_merged_body (ModelS.init : ModelS Rat) 0 frame jy body "p" C16.Ex.Y jfix
  bodyF "f" mP mPF 1 fixedDisc (by decide) rfl (by decide) (by decide) ex_add1 ex_add2
example := fixed_joint_vs_merged_dynamics (ModelS.init : ModelS Rat) 0 frame jy body "p" C16.Ex.Y
  jfix bodyF "f" mP mPF 1 fixedDisc (by decide) rfl (by decide) (by decide) ex_add1 ex_add2
end EEx

/-! ## F. `RevoluteX` built in, `Revolute` with axis `(1,0,0)`, user-defined -/
section F
variable {α : Type} [Field α]

/-- F. For the built-in `RevoluteX` joint, the `Revolute` joint with axis `(1,0,0)` and the
    user-defined joint re-implementing it (same coordinate, same joint frame), `jcalc` gives the
    same `X_λ`, `v_J`, `c_J = 0`, and the same motion-subspace column `(1,0,0,0,0,0)` — hence the
    same `S q̈` and the same `Sᵀ f` in every routine. -/
theorem revoluteX_three_ways (mA mB mC : ModelS α) (i j k : Nat) (wA wB wC : WS α) (st : QS α)
    (qd : VecN α)
    (hA : (mA.joint i).jt = .revoluteX) (dA : (mA.joint i).dof = 1)
    (hB : (mB.joint j).jt = .revolute) (dB : (mB.joint j).dof = 1)
    (hBax : (mB.joint j).axes.headD SV.zero = sv6 1 0 0 0 0 0)
    (hC : (mC.joint k).jt = .custom) (hCk : mC.custom (mC.joint k).customIdx = .revX)
    (qB : (mB.joint j).qIndex = (mA.joint i).qIndex) (qC : (mC.joint k).qIndex = (mA.joint i).qIndex)
    (xB : mB.XT_ j = mA.XT_ i) (xC : mC.XT_ k = mA.XT_ i)
    (hwA : FixedW mA wA i) (hwB : FixedW mB wB j) :
    let JA := jcalc mA wA i st qd
    let JB := jcalc mB wB j st qd
    let JC := jcalc mC wC k st qd
    (JB.X_lambda j = JA.X_lambda i ∧ JC.X_lambda k = JA.X_lambda i) ∧
    (JB.v_J j = JA.v_J i ∧ JC.v_J k = JA.v_J i) ∧
    (JA.c_J i = SV.zero ∧ JB.c_J j = SV.zero ∧ JC.c_J k = SV.zero) ∧
    (JA.Scols mA i = [sv6 1 0 0 0 0 0] ∧ JB.Scols mB j = [sv6 1 0 0 0 0 0] ∧
      JC.Scols mC k = [sv6 1 0 0 0 0 0]) :=
  revX_three mA mB mC i j k wA wB wC st qd hA dA hB dB hBax hC hCk qB qC xB xC hwA hwB

/-- F (all three axes). The built-in `RevoluteX/Y/Z` joint and the `Revolute` joint with the same
    axis have the same joint row (`X_λ`, `v_J`, `c_J`, column of `S`, `S q̈`). -/
theorem revolute_builtin_vs_axis (mA mB : ModelS α) (i j : Nat) (wA wB : WS α) (st : QS α)
    (qd : VecN α)
    (hA : isRevXYZ (mA.joint i).jt = true) (dA : (mA.joint i).dof = 1)
    (hB : (mB.joint j).jt = .revolute) (dB : (mB.joint j).dof = 1)
    (hBax : (mB.joint j).axes.headD SV.zero = axisJ (mA.joint i).jt)
    (qB : (mB.joint j).qIndex = (mA.joint i).qIndex) (xB : mB.XT_ j = mA.XT_ i)
    (hwA : FixedW mA wA i) (hwB : FixedW mB wB j) (qdd : VecN α) :
    jrow mB wB j st qd qdd = jrow mA wA i st qd qdd :=
  rev_builtin_vs_axis mA mB i j wA wB st qd hA dA hB dB hBax qB xB hwA hwB qdd

/-- F (user-defined 3-DoF joint). The user-defined joint re-implementing `EulerZYX` has the same
    joint row as the built-in `EulerZYX` joint, whatever the workspace of the custom joint held. -/
theorem eulerZYX_custom_vs_builtin (mA mC : ModelS α) (i k : Nat) (wA wC : WS α) (st : QS α)
    (qd qdd : VecN α)
    (hA : (mA.joint i).jt = .eulerZYX) (dA : (mA.joint i).dof = 3)
    (hC : (mC.joint k).jt = .custom) (hCk : mC.custom (mC.joint k).customIdx = .eulerZYX)
    (qC : (mC.joint k).qIndex = (mA.joint i).qIndex) (xC : mC.XT_ k = mA.XT_ i)
    (hwA : FixedW mA wA i) :
    jrow mC wC k st qd qdd = jrow mA wA i st qd qdd :=
  L07.eulerZYX_custom_vs_builtin mA mC i k wA wC st qd qdd hA dA hC hCk qC xC hwA

end F

section FEx
open Rbdl.L07.Ex
example (wC : WS Rat) := revoluteX_three_ways mFA mFB mFC 2 2 2 (initWS mFA)
  (poison mFB (initWS mFB) 9) wC st qd (by decide +kernel) (by decide +kernel) (by decide +kernel)
  (by decide +kernel) (by decide +kernel) (by decide +kernel) (by decide +kernel)
  (by decide +kernel) (by decide +kernel) (by decide +kernel) (by decide +kernel) mFA_fixed mFB_fixed
example := revolute_builtin_vs_axis mFA mFB 2 2 (initWS mFA) (poison mFB (initWS mFB) 9) st qd
  (by decide +kernel) (by decide +kernel) (by decide +kernel) (by decide +kernel)
  (by decide +kernel) (by decide +kernel) (by decide +kernel) mFA_fixed mFB_fixed qdd
example (wC : WS Rat) := eulerZYX_custom_vs_builtin (mE .eulerZYX) mFCE 2 2 wE wC st qd qdd
  (by decide +kernel) (by decide +kernel) (by decide +kernel) (by decide +kernel)
  (by decide +kernel) (by decide +kernel) (wE_fixed 2 (by decide) (by rw [mE_n]; decide))
end FEx

/-! ## G. Spherical joint versus Euler joint at the same orientation -/
section G
variable {α : Type} [Field α]

/-- G (the `ω̇` identity). Evaluate `ω = S(q) q̇` of an Euler joint on the second-order jets of its
    coordinates (`cos q_k`, `sin q_k` moving with `q̇_k`, `q̈_k`; `q̇_k` moving with `q̈_k`): the value
    is `v_J` and the time derivative is `S q̈ + c_J` — so `c_J = Ṡ q̇`, for every state. -/
theorem euler_omega_dot (e : JT) (he : isEuler e = true)
    (c1 s1 c2 s2 qd0 qd1 qd2 qdd0 qdd1 qdd2 j0 j1 j2 : α) :
    let W : V3 (D2 α) := eulerOmega e (D2.cosJ c1 s1 qd1 qdd1) (D2.sinJ c1 s1 qd1 qdd1)
      (D2.cosJ c2 s2 qd2 qdd2) (D2.sinJ c2 s2 qd2 qdd2) ⟨qd0, qdd0, j0⟩ ⟨qd1, qdd1, j1⟩
      ⟨qd2, qdd2, j2⟩
    (⟨⟨W.x.x, W.y.x, W.z.x⟩, V3.zero⟩ : SV α)
      = (eulerS e M63.zero c1 s1 c2 s2).mulV3 ⟨qd0, qd1, qd2⟩ ∧
    (⟨⟨W.x.d1, W.y.d1, W.z.d1⟩, V3.zero⟩ : SV α)
      = (eulerS e M63.zero c1 s1 c2 s2).mulV3 ⟨qdd0, qdd1, qdd2⟩
        + eulerCJ e c1 s1 c2 s2 qd0 qd1 qd2 :=
  eulerOmega_jet e he c1 s1 c2 s2 qd0 qd1 qd2 qdd0 qdd1 qdd2 j0 j1 j2
example := euler_omega_dot (α := Rat) .eulerYXZ rfl (3/5) (4/5) (5/13) (12/13) 1 2 3 (-1) 0 2 0 0 0

/-- G. A spherical joint and an Euler joint with the same joint frame at the same orientation
    (`E(quaternion) = E(Euler angles)`).  If the velocity coordinates of the spherical joint are
    the angular velocity `ω = S(q) q̇` of the Euler joint, `jcalc` gives the same `X_λ` and `v_J`.  If
    moreover its acceleration coordinates are `ω̇ = S q̈ + c_J` (the time derivative of `ω`, see
    `euler_omega_dot`; the spherical joint itself has `c_J = 0` and `a = S q̈`), one iteration of
    the `UpdateKinematics` loop leaves the same `X_base`, `v`, `a` in the two bodies. -/
theorem spherical_vs_euler (mS mE : ModelS α) (i j : Nat) (wS wE : WS α) (stS stE : QS α)
    (qdS qddS qdE qddE : VecN α)
    (hS : (mS.joint i).jt = .spherical) (hdS : (mS.joint i).dof = 3)
    (hE : isEuler (mE.joint j).jt = true) (hdE : (mE.joint j).dof = 3)
    (hX : mS.XT_ i = mE.XT_ j) (hwS : FixedW mS wS i) (hwE : FixedW mE wE j)
    (hrot : (getQuaternion mS i stS.q).toMatrix
      = eulerE (mE.joint j).jt (stE.c (mE.joint j).qIndex) (stE.s (mE.joint j).qIndex)
          (stE.c ((mE.joint j).qIndex + 1)) (stE.s ((mE.joint j).qIndex + 1))
          (stE.c ((mE.joint j).qIndex + 2)) (stE.s ((mE.joint j).qIndex + 2)))
    (homega : (⟨⟨qdS (mS.joint i).qIndex, qdS ((mS.joint i).qIndex + 1),
        qdS ((mS.joint i).qIndex + 2)⟩, V3.zero⟩ : SV α)
      = (jcalc mE wE j stE qdE).v_J j) :
    (jcalc mS wS i stS qdS).X_lambda i = (jcalc mE wE j stE qdE).X_lambda j ∧
    (jcalc mS wS i stS qdS).v_J i = (jcalc mE wE j stE qdE).v_J j ∧
    (jcalc mS wS i stS qdS).c_J i = SV.zero ∧
    ((⟨⟨qddS (mS.joint i).qIndex, qddS ((mS.joint i).qIndex + 1),
        qddS ((mS.joint i).qIndex + 2)⟩, V3.zero⟩ : SV α)
      = (jcalc mE wE j stE qdE).Sqdd mE j qddE + (jcalc mE wE j stE qdE).c_J j →
     parentKin mS wS i = parentKin mE wE j →
     kinOf (L06.ukBody mS stS qdS qddS i wS) i = kinOf (L06.ukBody mE stE qdE qddE j wE) j) :=
  ⟨(spherical_euler mS mE i j wS wE stS stE qdS qddS qdE qddE hS hdS hE hdE hX hwS hwE hrot homega).1,
   (spherical_euler mS mE i j wS wE stS stE qdS qddS qdE qddE hS hdS hE hdE hX hwS hwE hrot homega).2.1,
   (jcalc_sph mS wS i stS qdS hS hwS).2.2.2,
   (spherical_euler mS mE i j wS wE stS stE qdS qddS qdE qddE hS hdS hE hdE hX hwS hwE hrot homega).2.2⟩

end G

section GEx
open Rbdl.L07.Ex
example := spherical_vs_euler mS (mE .eulerZYX) 2 2 (initWS mS) wG stS stG qdS qddS qd qdd
  (by decide +kernel) (by decide +kernel) (by decide +kernel) (by decide +kernel)
  (by decide +kernel) mS_fixed wG_fixed (by decide +kernel) homegaG
/-- … and with `ω̇ = S q̈ + c_J` as acceleration coordinates the whole step agrees -/
example : kinOf (L06.ukBody mS stS qdS qddS 2 (initWS mS)) 2
    = kinOf (L06.ukBody (mE .eulerZYX) stG qd qdd 2 wG) 2 :=
  (spherical_vs_euler mS (mE .eulerZYX) 2 2 (initWS mS) wG stS stG qdS qddS qd qdd
    (by decide +kernel) (by decide +kernel) (by decide +kernel) (by decide +kernel)
    (by decide +kernel) mS_fixed wG_fixed (by decide +kernel) homegaG).2.2.2 haccG parentG
end GEx

/-! ## H. Sibling order: a relabelling of the bodies relabels the results -/
section H
variable {α : Type} [Field α]

/-- H0. Under a relabelling `σ` the children of `σ i` are the images of the children of `i`
    (as sets; the ascending lists are permutations of each other). -/
theorem relabel_children {m m' : ModelS α} {σ σi : Nat → Nat} (R : Relabel m m' σ σi) (i : Nat)
    (hi : i < m.nBodies) :
    (childrenOf m'.lam (m'.nBodies - 1) (σ i)).Perm
      ((childrenOf m.lam (m.nBodies - 1) i).map σ) :=
  L07.relabel_children R i hi

/-- H (general relabelling congruence for the recursive Newton–Euler algorithm). Let `σ` be a
    bijection of the body indices of `m` onto those of `m'` that fixes the base and commutes with
    `lambda`, the spatial inertias, the virtual flags and the joint arities (`Relabel`; gravity
    equal), and suppose the joint rows `jcalc` computes for corresponding joints agree (`jrow`;
    see `relabel_joint_rows`), external forces correspond.  Then after the forward pass
    corresponding bodies have the same `v`, `a`, `f`; the accumulated forces of the backward pass
    agree; and coordinate `d` of joint `σ i` receives the generalized force that coordinate `d` of
    joint `i` receives: `τ'[q'(σ i) + d] = τ[q(i) + d]`. -/
theorem relabel_rnea {m m' : ModelS α} {σ σi : Nat → Nat} (R : Relabel m m' σ σi)
    (hwf : m.WF) (hwf' : m'.WF) (hc : CustomInj m) (hc' : CustomInj m')
    (w w' : WS α) (st st' : QS α) (qd qd' qdd qdd' tau tau' : VecN α)
    (fext fext' : Option (Nat → SV α))
    (hrow : ∀ i, 1 ≤ i → i < m.nBodies →
      jrow m' w' (σ i) st' qd' qdd' = jrow m w i st qd qdd)
    (hfe : FextEq m σ w w' fext fext') :
    (∀ i, 1 ≤ i → i < m.nBodies →
      (idForward m' w' st' qd' qdd' fext').v (σ i) = (idForward m w st qd qdd fext).v i ∧
      (idForward m' w' st' qd' qdd' fext').a (σ i) = (idForward m w st qd qdd fext).a i ∧
      (idForward m' w' st' qd' qdd' fext').f (σ i) = (idForward m w st qd qdd fext).f i ∧
      rneaFtot m' (idForward m' w' st' qd' qdd' fext') (σ i)
        = rneaFtot m (idForward m w st qd qdd fext) i) ∧
    (∀ i d, 1 ≤ i → i < m.nBodies → d < (m.joint i).dof →
      (inverseDynamics m' w' st' qd' qdd' tau' fext').2 ((m'.joint (σ i)).qIndex + d)
        = (inverseDynamics m w st qd qdd tau fext).2 ((m.joint i).qIndex + d)) :=
  relabel_inverseDynamics R hwf hwf' hc hc' w w' st st' qd qd' qdd qdd' tau tau' fext fext' hrow hfe

/-- H1. Two joints of the same type, axis, number of degrees of freedom, joint frame (and
    custom-joint kind) whose coordinates sit at different positions, evaluated at states that agree
    on these coordinates, have the same joint row — for every joint type `jcalc` supports. -/
theorem relabel_joint_rows (m : ModelS α) (i : Nat) (m' : ModelS α) (i' : Nat) (w w' : WS α)
    (st st' : QS α) (qd qd' qdd qdd' : VecN α)
    (hJ : JointEq m i m' i') (hC : CoordEq m i m' i' st st' qd qd' qdd qdd')
    (hok : JointOK m i) (hw : FixedW m w i) (hw' : FixedW m' w' i') :
    jrow m' w' i' st' qd' qdd' = jrow m w i st qd qdd :=
  jrow_shift m i m' i' w w' st st' qd qd' qdd qdd' hJ hC hok hw hw'

/-- H (with the hypotheses on the joints spelled out). The same tree with the bodies numbered
    differently — e.g. sibling branches added in a different order — gives the same velocities,
    accelerations, forces, and the same generalized forces up to the induced permutation of the
    coordinates. -/
theorem relabel_rnea_of_joints {m m' : ModelS α} {σ σi : Nat → Nat} (R : Relabel m m' σ σi)
    (hwf : m.WF) (hwf' : m'.WF) (hc : CustomInj m) (hc' : CustomInj m')
    (w w' : WS α) (st st' : QS α) (qd qd' qdd qdd' tau tau' : VecN α)
    (fext fext' : Option (Nat → SV α))
    (hJ : ∀ i, 1 ≤ i → i < m.nBodies → JointEq m i m' (σ i))
    (hC : ∀ i, 1 ≤ i → i < m.nBodies → CoordEq m i m' (σ i) st st' qd qd' qdd qdd')
    (hok : ∀ i, 1 ≤ i → i < m.nBodies → JointOK m i)
    (hw : ∀ i, 1 ≤ i → i < m.nBodies → FixedW m w i)
    (hw' : ∀ i, 1 ≤ i → i < m.nBodies → FixedW m' w' (σ i))
    (hfe : FextEq m σ w w' fext fext') :
    (∀ i, 1 ≤ i → i < m.nBodies →
      (idForward m' w' st' qd' qdd' fext').v (σ i) = (idForward m w st qd qdd fext).v i ∧
      (idForward m' w' st' qd' qdd' fext').a (σ i) = (idForward m w st qd qdd fext).a i ∧
      (idForward m' w' st' qd' qdd' fext').f (σ i) = (idForward m w st qd qdd fext).f i ∧
      rneaFtot m' (idForward m' w' st' qd' qdd' fext') (σ i)
        = rneaFtot m (idForward m w st qd qdd fext) i) ∧
    (∀ i d, 1 ≤ i → i < m.nBodies → d < (m.joint i).dof →
      (inverseDynamics m' w' st' qd' qdd' tau' fext').2 ((m'.joint (σ i)).qIndex + d)
        = (inverseDynamics m w st qd qdd tau fext).2 ((m.joint i).qIndex + d)) :=
  relabel_inverseDynamics' R hwf hwf' hc hc' w w' st st' qd qd' qdd qdd' tau tau' fext fext'
    hJ hC hok hw hw' hfe

/-- H (kinematics). `UpdateKinematics` on the relabelled model leaves the same `X_base`, `v`, `a` in
    corresponding bodies. -/
theorem relabel_updateKinematics {m m' : ModelS α} {σ σi : Nat → Nat} (R : Relabel m m' σ σi)
    (hnc : ∀ i, 1 ≤ i → i < m.nBodies → (m.joint i).jt ≠ .custom)
    (hnc' : ∀ i, 1 ≤ i → i < m'.nBodies → (m'.joint i).jt ≠ .custom)
    (w w' : WS α) (st st' : QS α) (qd qd' qdd qdd' : VecN α)
    (hrow : ∀ i, 1 ≤ i → i < m.nBodies →
      jrow m' w' (σ i) st' qd' qdd' = jrow m w i st qd qdd) :
    ∀ i, 1 ≤ i → i < m.nBodies →
      kinOf (updateKinematics m' w' st' qd' qdd') (σ i) = kinOf (updateKinematics m w st qd qdd) i :=
  L07.relabel_updateKinematics R hnc hnc' w w' st st' qd qd' qdd qdd' hrow

/-- H (construction level). Adding two single-body siblings `A`, `B` to the same parent in the two
    possible orders gives models related by the exchange `σ = (n  n+1)` of the two new body
    indices: `σ` commutes with `lambda` and all per-body data (`Relabel`), corresponding joints are
    equal up to the position of their coordinates (`JointEq`), and the coordinates are exchanged
    block-wise: `A` has `[dofCount, dofCount + dof A)` in the first model and
    `[dofCount + dof B, …)` in the second.  With `relabel_rnea_of_joints` this gives the permuted
    RNEA results for every state. -/
theorem sibling_order_relabel (m : ModelS α) (p : Nat) (XA : XT α) (jA : Joint α) (bA : Body α)
    (nA : String) (XB : XT α) (jB : Joint α) (bB : Body α) (nB : String)
    (hwf : m.WF) (hp : m.validId p)
    (hAB : (twoSiblings m p XA jA bA nA XB jB bB nB).WF)
    (hBA : (twoSiblings m p XB jB bB nB XA jA bA nA).WF)
    (har : ∀ i, 1 ≤ i → i < m.nBodies → m.arity i ≠ .other)
    (haA : jA.jt = .custom ∨ (jA.jt ≠ .custom ∧ (jA.dof = 1 ∨ jA.dof = 3)))
    (haB : jB.jt = .custom ∨ (jB.jt ≠ .custom ∧ (jB.dof = 1 ∨ jB.dof = 3))) :
    Relabel (twoSiblings m p XA jA bA nA XB jB bB nB) (twoSiblings m p XB jB bB nB XA jA bA nA)
      (swap2 m.bodies.length) (swap2 m.bodies.length) ∧
    (∀ i, 1 ≤ i → i < m.bodies.length + 2 →
      JointEq (twoSiblings m p XA jA bA nA XB jB bB nB) i
        (twoSiblings m p XB jB bB nB XA jA bA nA) (swap2 m.bodies.length i)) ∧
    (((twoSiblings m p XA jA bA nA XB jB bB nB).joint m.bodies.length).qIndex = m.dofCount ∧
     ((twoSiblings m p XA jA bA nA XB jB bB nB).joint (m.bodies.length + 1)).qIndex
        = m.dofCount + jA.dof) ∧
    (((twoSiblings m p XB jB bB nB XA jA bA nA).joint m.bodies.length).qIndex = m.dofCount ∧
     ((twoSiblings m p XB jB bB nB XA jA bA nA).joint (m.bodies.length + 1)).qIndex
        = m.dofCount + jB.dof) :=
  ⟨(siblings_relabel m p XA jA bA nA XB jB bB nB hwf hp hAB hBA har haA haB).1,
   (siblings_relabel m p XA jA bA nA XB jB bB nB hwf hp hAB hBA har haA haB).2,
   siblings_qIndex m p XA jA bA nA XB jB bB nB hwf, siblings_qIndex m p XB jB bB nB XA jA bA nA hwf⟩

end H

section HSib
variable {α : Type} [Field α] [DecidableEq α]

/-- `twoSiblings` is the model two successful `AddBody` calls (joints with a single movable body)
    produce; the returned ids are `n` and `n + 1`. -/
theorem sibling_order_of_addBody (m : ModelS α) (p : Nat) (XA : XT α) (jA : Joint α) (bA : Body α)
    (nA : String) (XB : XT α) (jB : Joint α) (bB : Body α) (nB : String) (m1 m2 : ModelS α)
    (n1 n2 : Nat) (hkA : jA.jt.kind = .single) (hkB : jB.jt.kind = .single)
    (h1 : m.addBody p XA jA bA nA = (m1, .ok n1)) (h2 : m1.addBody p XB jB bB nB = (m2, .ok n2)) :
    m2 = twoSiblings m p XA jA bA nA XB jB bB nB ∧ n1 = m.bodies.length ∧
      n2 = m.bodies.length + 1 :=
  twoSiblings_of_addBody m p XA jA bA nA XB jB bB nB m1 m2 n1 n2 hkA hkB h1 h2

end HSib

section HNE
variable {α : Type} [Field α] [DecidableEq α]

/-- H (`NonlinearEffects`). The relabelled model gives the relabelled nonlinear effects. -/
theorem relabel_nonlinearEffects {m m' : ModelS α} {σ σi : Nat → Nat} (R : Relabel m m' σ σi)
    (hwf : m.WF) (hwf' : m'.WF) (hc : CustomInj m) (hc' : CustomInj m')
    (hperm : (m.updateOrder.drop 1).Perm (List.range' 1 (m.nBodies - 1)))
    (hperm' : (m'.updateOrder.drop 1).Perm (List.range' 1 (m'.nBodies - 1)))
    (hdc : m'.dofCount = m.dofCount)
    (w w' : WS α) (st st' : QS α) (qd qd' tau tau' : VecN α)
    (hJ : ∀ i, 1 ≤ i → i < m.nBodies → JointEq m i m' (σ i))
    (hC : ∀ i, 1 ≤ i → i < m.nBodies → CoordEq m i m' (σ i) st st' qd qd' zeroVec zeroVec)
    (hok : ∀ i, 1 ≤ i → i < m.nBodies → JointOK m i)
    (hok' : ∀ i, 1 ≤ i → i < m'.nBodies → JointOK m' i)
    (hw : ∀ i, 1 ≤ i → i < m.nBodies → FixedW m w i)
    (hw' : ∀ i, 1 ≤ i → i < m'.nBodies → FixedW m' w' i)
    (i d : Nat) (h1 : 1 ≤ i) (h2 : i < m.nBodies) (hd : d < (m.joint i).dof) :
    (nonlinearEffects m' w' st' qd' tau' none).2 ((m'.joint (σ i)).qIndex + d)
      = (nonlinearEffects m w st qd tau none).2 ((m.joint i).qIndex + d) :=
  L07.relabel_nonlinearEffects R hwf hwf' hc hc' hperm hperm' hdc w w' st st' qd qd' tau tau'
    hJ hC hok hok' hw hw' i d h1 h2 hd

end HNE

section HEx
open Rbdl.L07.Ex2 Rbdl.L07.Ex
/-- the two trees: branch A (Euler joint, child C) and branch B added in the two orders;
    `σ = (2 3 4)`: A 2 ↦ 3, C 3 ↦ 4, B 4 ↦ 2; coordinates `q' = (q₀, q₅, q₁, q₂, q₃, q₄)` -/
example : m1.lambda = [0, 0, 1, 2, 1] ∧ m2.lambda = [0, 0, 1, 1, 3] := m1_lambda
example := relabel_children relabel 1 (by decide +kernel)
/-- for every state, velocity, acceleration and incoming `tau`, with external forces -/
example (st : QS Rat) (qd qdd tau tau' : VecN Rat) (g : Nat → SV Rat) :=
  relabel_rnea_of_joints relabel m1_wf m2_wf m1_ci m2_ci w1 w2 st (perm st) qd (permV qd) qdd
    (permV qdd) tau tau' (some g) (some fun j => g (σi j)) jointEq (coordEq st qd qdd) jointOK
    w1_fixed w2_fixed
    ⟨fun i h1 h2 => by
      show g (σi (σ i)) = g i
      rw [relabel.left i h2], by
      show w2.X_base 0 = w1.X_base 0
      simp only [w1, w2, poison, Nat.lt_irrefl, false_and, if_false]; rfl⟩
example (st : QS Rat) (qd qdd : VecN Rat) :=
  relabel_joint_rows m1 2 m2 3 w1 w2 st (perm st) qd (permV qd) qdd (permV qdd)
    (jointEq 2 (by decide) (by decide +kernel)) (coordEq st qd qdd 2 (by decide) (by decide +kernel))
    (jointOK 2 (by decide) (by decide +kernel)) (w1_fixed 2 (by decide) (by decide +kernel))
    (w2_fixed 2 (by decide) (by decide +kernel))
example (st : QS Rat) (qd tau tau' : VecN Rat) :=
  relabel_nonlinearEffects relabel m1_wf m2_wf m1_ci m2_ci m1_perm m2_perm (by decide +kernel)
    w1 w2 st (perm st) qd (permV qd) tau tau' jointEq (coordEq0 st qd) jointOK jointOK2 w1_fixed
    w2_fixed_all 2 1 (by decide) (by decide +kernel) (by decide +kernel)
example (st : QS Rat) (qd qdd : VecN Rat) :=
  relabel_updateKinematics relabel m1_nc m2_nc w1 w2 st (perm st) qd (permV qd) qdd (permV qdd)
    (rows12 st qd qdd)
example := sibling_order_relabel mB0 1 frame jA body "A" C16.Ex.Y jz bodyF "B" mB0_wf
  (by decide +kernel) sAB_wf sBA_wf
  (fun i h1 h2 => by
    have : i = 1 := by have : mB0.nBodies = 2 := by decide +kernel
                       omega
    subst this; decide +kernel)
  (Or.inr ⟨by decide, Or.inr (by decide +kernel)⟩) (Or.inr ⟨by decide, Or.inl (by decide +kernel)⟩)
example := sibling_order_of_addBody mB0 1 frame jA body "A" C16.Ex.Y jz bodyF "B" mA1 mA2 2 3
  (by decide) (by decide) mA1_add mA2_add
end HEx

end Rbdl.C07
