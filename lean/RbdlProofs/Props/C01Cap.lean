import RbdlProofs.Lemmas.L01CapEx
import RbdlProofs.Lemmas.L01CapFixEx
/-
  C01, capstone — **inverse dynamics equals first-principles Newton–Euler.**

  "For every well-formed model, state and external forces, the generalized forces returned by
   `InverseDynamics` equal those obtained by formally differentiating the position-level forward
   kinematics twice, writing Newton's and Euler's equations of every body in the inertial frame and
   projecting on the partial velocities (d'Alembert)."

  Code side: `inverseDynamics` (`Rbdl/Dyn.lean`, RNEA with spatial algebra, `a_0 = −g`, workspace
  passing).  Specification side: `Spec.newtonEulerTau` (`Rbdl/Spec/Mech.lean`): poses composed from the
  base outward over second-order jets (`fkTable`, `coordJets`, `kinTable`), `F = m (c̈ − g)`,
  `N = d/dt (R I Rᵀ ω)` per body in the inertial frame, projected on the first-order jets for the unit
  velocities `e_x`; external forces `(n_O, f)` in base coordinates.

  Notions (all in `RbdlProofs/Lemmas/L01Cap*.lean`, namespace `Rbdl.L01Cap`):
  * `Refines m M`   the specification model `M` describes the mechanism of the code-level model `m`:
                    same number of nodes / movable bodies, same gravity, same number of generalized
                    velocities; node 0 is the base; node `i` (`NodeRefines`) has parent `λ(i)`, the joint
                    frame `X_T[i]`, the position-level definition `ModelS.sjoint m i` of joint `i` on the
                    coordinates `q_index(i) …` (and the quaternion index `w3(i)` for a spherical joint), and
                    either carries no body (`mIsVirtual`) or mass / centre of mass / symmetric centroidal
                    inertia with `I[i] = createFromMassComInertiaC(mass, com, inertia)`.
  * `ModelOK m`     what the construction code guarantees: the C14 invariant `ModelS.WF`, joints as the
                    `Joint` constructors declare them (`L06.JointDecl`), only joint types `jcalc` handles,
                    joint frames with proper rotations, distinct slots for distinct custom joints.
  * `StateOK m st`  `cos² + sin² = 1` for every angle read, unit axes, unit quaternions.
  * `WSFixed m w`   (C13, `Rbdl/WSInv.lean`) the workspace holds the construction-time constants in the
                    entries no routine rewrites; everything else is arbitrary ("poisoned or not").
  * `stateOf st qd qdd`, `fextSpec fext`  the state / external forces as the specification takes them.
  * `goodRun init ops`, `specOf ops`  Stage E: a sequence of successful `AddBody` / `AppendBody` calls
                    with single-body joint types, and the specification model built in parallel from the
                    same arguments by `Spec.SB.add` + `SModel.finalize`.
  * `RefinesF m M off nodeOf`  Stage D: the specification keeps every body added through a fixed joint
                    as a node of its own (joint `.fixed`); the code merges it into its movable parent.
                    `nodeOf i` = node of movable body `i`, `nd.movableId` = the movable body a node moves
                    with, `off n` = the constant transform from that body's frame to the frame of node `n`
                    (`1` for movable nodes, `SpatialTransform(E,r) * off(parent)` for fixed nodes = the code's
                    `mParentTransform`); a movable body attached to a fixed body has
                    `X_T = SpatialTransform(E,r) * off(parent)`; and `I[i] = Σ_{n moves with i} off(n)ᵀ I_n off(n)`
                    (what repeated `Body::Join` gives, C15 `join_toRBI`); a virtual body has `I[i] v = 0`.
  * `goodRunF init ops`  Stages D + E: successful `AddBody` / `AppendBody` calls with single-body joints,
                    the fixed joint or the floating base (parents may be fixed bodies), and
                    `AddBodyCustomJoint` calls; ids stay below the fixed-body discriminator.
                    Not covered by Stage E: the emulated multi-DoF chains (`JointTypeNDoF` with axes).

  Hypotheses that cannot be dropped: `2 ≠ 0` (spherical joints use `Q̇ = ½ Q ⊗ ω`; C06 has the `GF(2)`
  counterexample), symmetric inertia (machine-checked counterexample `Ex.opsN` below: the model reads the
  lower triangle, Euler's equation the whole matrix), `X_base[0] = 1` when external forces are given
  (part of `WSFixed`; counterexample `wbad` in C01).
-/
namespace Rbdl.C01Cap
open Lean.Grind Rbdl Rbdl.Spec Rbdl.L01Cap
variable {α : Type} [Field α] [DecidableEq α]

/-- **Stage C — the main theorem: arbitrary trees (no fixed bodies), every joint type `jcalc`
    handles (incl. the custom joints of the harness), with or without external forces, every
    workspace.**  Entry `x < dofCount` of the generalized forces written by `InverseDynamics` is
    entry `x` of the first-principles Newton–Euler / d'Alembert forces of the specification. -/
theorem inverseDynamics_eq_newtonEuler {m : ModelS α} {M : SModel α} (hm : ModelOK m)
    (hR : Refines m M) (h2 : (2 : α) ≠ 0) (w : WS α) (hw : WSFixed m w) (st : QS α)
    (hst : StateOK m st) (qd qdd tau : VecN α) (fext : Option (Nat → SV α)) (x : Nat)
    (hx : x < m.dofCount) :
    (inverseDynamics m w st qd qdd tau fext).2 x
      = (newtonEulerTau M (stateOf st qd qdd) (fextSpec fext)).getD x 0 :=
  id_eq_spec hm hR h2 w hw st hst qd qdd tau fext x hx

/-- the branched tree of `L01Cap.Ex` (Euler-ZYX joint at the root, revolute / spherical / prismatic /
    helical joints below), poisoned workspace, external forces on every body -/
example (x : Nat) (hx : x < Ex.m.dofCount) :=
  inverseDynamics_eq_newtonEuler Ex.m_ok Ex.m_refines Ex.two_ne Ex.w1 Ex.w1_fixed Ex.st Ex.st_ok
    Ex.qd Ex.qdd Ex.tau0 (some Ex.fe) x hx
example (x : Nat) (hx : x < Ex.m.dofCount) :=
  inverseDynamics_eq_newtonEuler Ex.m_ok Ex.m_refines Ex.two_ne Ex.w0 Ex.w0_fixed Ex.st Ex.st_ok
    Ex.qd Ex.qdd Ex.tau0 none x hx

/-- numerical sanity check (kernel evaluation over `Rat`, both sides computed independently), one
    entry per `example` to keep every check short: all nine generalized forces of the example agree,
    with external forces on every body, on the poisoned workspace -/
example : (inverseDynamics Ex.m Ex.w1 Ex.st Ex.qd Ex.qdd Ex.tau0 (some Ex.fe)).2 0
    = (newtonEulerTau Ex.M (stateOf Ex.st Ex.qd Ex.qdd) (fextSpec (some Ex.fe))).getD 0 0 := by
  decide +kernel
example : (inverseDynamics Ex.m Ex.w1 Ex.st Ex.qd Ex.qdd Ex.tau0 (some Ex.fe)).2 1
    = (newtonEulerTau Ex.M (stateOf Ex.st Ex.qd Ex.qdd) (fextSpec (some Ex.fe))).getD 1 0 := by
  decide +kernel
example : (inverseDynamics Ex.m Ex.w1 Ex.st Ex.qd Ex.qdd Ex.tau0 (some Ex.fe)).2 2
    = (newtonEulerTau Ex.M (stateOf Ex.st Ex.qd Ex.qdd) (fextSpec (some Ex.fe))).getD 2 0 := by
  decide +kernel
example : (inverseDynamics Ex.m Ex.w1 Ex.st Ex.qd Ex.qdd Ex.tau0 (some Ex.fe)).2 3
    = (newtonEulerTau Ex.M (stateOf Ex.st Ex.qd Ex.qdd) (fextSpec (some Ex.fe))).getD 3 0 := by
  decide +kernel
example : (inverseDynamics Ex.m Ex.w1 Ex.st Ex.qd Ex.qdd Ex.tau0 (some Ex.fe)).2 4
    = (newtonEulerTau Ex.M (stateOf Ex.st Ex.qd Ex.qdd) (fextSpec (some Ex.fe))).getD 4 0 := by
  decide +kernel
example : (inverseDynamics Ex.m Ex.w1 Ex.st Ex.qd Ex.qdd Ex.tau0 (some Ex.fe)).2 5
    = (newtonEulerTau Ex.M (stateOf Ex.st Ex.qd Ex.qdd) (fextSpec (some Ex.fe))).getD 5 0 := by
  decide +kernel
example : (inverseDynamics Ex.m Ex.w1 Ex.st Ex.qd Ex.qdd Ex.tau0 (some Ex.fe)).2 6
    = (newtonEulerTau Ex.M (stateOf Ex.st Ex.qd Ex.qdd) (fextSpec (some Ex.fe))).getD 6 0 := by
  decide +kernel
example : (inverseDynamics Ex.m Ex.w1 Ex.st Ex.qd Ex.qdd Ex.tau0 (some Ex.fe)).2 7
    = (newtonEulerTau Ex.M (stateOf Ex.st Ex.qd Ex.qdd) (fextSpec (some Ex.fe))).getD 7 0 := by
  decide +kernel
example : (inverseDynamics Ex.m Ex.w1 Ex.st Ex.qd Ex.qdd Ex.tau0 (some Ex.fe)).2 8
    = (newtonEulerTau Ex.M (stateOf Ex.st Ex.qd Ex.qdd) (fextSpec (some Ex.fe))).getD 8 0 := by
  decide +kernel
/-- … and without external forces on the workspace left by the construction code (the yaw coordinate
    of the Euler joint at the root, and the last coordinate of the spherical joint) -/
example : (inverseDynamics Ex.m Ex.w0 Ex.st Ex.qd Ex.qdd Ex.tau0 none).2 0
    = (newtonEulerTau Ex.M (stateOf Ex.st Ex.qd Ex.qdd) (fextSpec none)).getD 0 0 := by
  decide +kernel
example : (inverseDynamics Ex.m Ex.w0 Ex.st Ex.qd Ex.qdd Ex.tau0 none).2 6
    = (newtonEulerTau Ex.M (stateOf Ex.st Ex.qd Ex.qdd) (fextSpec none)).getD 6 0 := by
  decide +kernel
/-- the value itself: the first generalized force is not a trivial number -/
example : (inverseDynamics Ex.m Ex.w1 Ex.st Ex.qd Ex.qdd Ex.tau0 (some Ex.fe)).2 0
    = -2646186943130237 / 854296875000 := by decide +kernel

/-- the whole vector: the first `dofCount` entries of `Tau` are the list the specification returns -/
theorem inverseDynamics_eq_newtonEuler_list {m : ModelS α} {M : SModel α} (hm : ModelOK m)
    (hR : Refines m M) (h2 : (2 : α) ≠ 0) (w : WS α) (hw : WSFixed m w) (st : QS α)
    (hst : StateOK m st) (qd qdd tau : VecN α) (fext : Option (Nat → SV α)) :
    (List.range m.dofCount).map (fun x => (inverseDynamics m w st qd qdd tau fext).2 x)
      = newtonEulerTau M (stateOf st qd qdd) (fextSpec fext) := by
  have hlen : (newtonEulerTau M (stateOf st qd qdd) (fextSpec fext)).length = m.dofCount := by
    unfold newtonEulerTau
    simp only [List.length_map, List.length_range]
    exact hR.nv
  apply List.ext_getElem
  · rw [List.length_map, List.length_range, hlen]
  · intro x h1 h2'
    rw [List.length_map, List.length_range] at h1
    rw [List.getElem_map, List.getElem_range,
      inverseDynamics_eq_newtonEuler hm hR h2 w hw st hst qd qdd tau fext x h1,
      List.getD_eq_getElem?_getD, List.getElem?_eq_getElem h2']
    rfl
example := inverseDynamics_eq_newtonEuler_list Ex.m_ok Ex.m_refines Ex.two_ne Ex.w1 Ex.w1_fixed
  Ex.st Ex.st_ok Ex.qd Ex.qdd Ex.tau0 (some Ex.fe)

/-- **Stage A — a single body on any joint type** (one movable body on the base) -/
theorem single_body_eq_newtonEuler {m : ModelS α} {M : SModel α} (hm : ModelOK m)
    (hR : Refines m M) (_hn : m.nBodies = 2) (h2 : (2 : α) ≠ 0) (w : WS α) (hw : WSFixed m w)
    (st : QS α) (hst : StateOK m st) (qd qdd tau : VecN α) (fext : Option (Nat → SV α)) (x : Nat)
    (hx : x < m.dofCount) :
    (inverseDynamics m w st qd qdd tau fext).2 x
      = (newtonEulerTau M (stateOf st qd qdd) (fextSpec fext)).getD x 0 :=
  inverseDynamics_eq_newtonEuler hm hR h2 w hw st hst qd qdd tau fext x hx
/-- one body on a helical joint (screw axis (2,1,2)/3, pitch vector (1,2,3)), poisoned workspace -/
example (x : Nat) (hx : x < Ex.mA.dofCount) :=
  single_body_eq_newtonEuler (L01Cap.refines_by_construction Ex.opsA Ex.opsA_good).1
    (L01Cap.refines_by_construction Ex.opsA Ex.opsA_good).2 Ex.mA_n Ex.two_ne _ Ex.wA_fixed Ex.st
    Ex.stA_ok Ex.qd Ex.qdd Ex.tau0 (some Ex.fe) x hx
example : (inverseDynamics Ex.mA (poison Ex.mA (initWS Ex.mA) 3) Ex.st Ex.qd Ex.qdd Ex.tau0
      (some Ex.fe)).2 0
    = (newtonEulerTau (specOf Ex.opsA) (stateOf Ex.st Ex.qd Ex.qdd) (fextSpec (some Ex.fe))).getD 0 0
    := by decide +kernel

/-- **Stage B — serial chains** (`λ(i) = i − 1`) -/
theorem serial_chain_eq_newtonEuler {m : ModelS α} {M : SModel α} (hm : ModelOK m)
    (hR : Refines m M) (_hchain : ∀ i, 1 ≤ i → i < m.nBodies → m.lam i = i - 1)
    (h2 : (2 : α) ≠ 0) (w : WS α) (hw : WSFixed m w) (st : QS α) (hst : StateOK m st)
    (qd qdd tau : VecN α) (fext : Option (Nat → SV α)) (x : Nat) (hx : x < m.dofCount) :
    (inverseDynamics m w st qd qdd tau fext).2 x
      = (newtonEulerTau M (stateOf st qd qdd) (fextSpec fext)).getD x 0 :=
  inverseDynamics_eq_newtonEuler hm hR h2 w hw st hst qd qdd tau fext x hx
/-- a revolute – prismatic – Euler-ZYX chain -/
example (x : Nat) (hx : x < Ex.mB.dofCount) :=
  serial_chain_eq_newtonEuler (L01Cap.refines_by_construction Ex.opsB Ex.opsB_good).1
    (L01Cap.refines_by_construction Ex.opsB Ex.opsB_good).2 Ex.mB_chain Ex.two_ne _ Ex.wB_fixed Ex.st
    Ex.stB_ok Ex.qd Ex.qdd Ex.tau0 none x hx

/-- **Stage E — `Refines` is established by construction**: for every sequence of valid, supported
    and successful construction calls (`goodRun`), the model the construction code builds satisfies
    `ModelOK` and refines the specification model built in parallel from the same arguments
    (`specOf ops` = `Spec.SB.add` per call, then `SModel.finalize`). -/
theorem refines_by_construction (ops : List (Op α))
    (hg : goodRun (ModelS.init : ModelS α) ops) :
    ModelOK ((ModelS.init : ModelS α).run ops) ∧
    Refines ((ModelS.init : ModelS α).run ops) (specOf ops) :=
  L01Cap.refines_by_construction ops hg
example := refines_by_construction Ex.ops Ex.ops_good

/-- the symmetry of the inertia matrix (`GoodBody`, `NodeRefines.symm`) cannot be dropped:
    `createFromMassComInertiaC` reads the lower triangle only, Euler's equation uses the whole matrix;
    for the one-body model `Ex.opsN` (Euler-ZYX joint, matrix with `I₀₁ = 1 ≠ 0 = I₁₀`; valid, successful
    call; rotation frame; admissible state) the two sides differ -/
example : Op.valid (ModelS.init : ModelS Rat) (.addBody 0 C16.Ex.X Ex.jZYX Ex.bN "") ∧
    GoodJoint Ex.jZYX ∧ Ex.bN.isVirtual = false ∧
    (inverseDynamics Ex.mN (initWS Ex.mN) Ex.st Ex.qd Ex.qdd Ex.tau0 none).2 0
      ≠ (newtonEulerTau (specOf Ex.opsN) (stateOf Ex.st Ex.qd Ex.qdd) (fextSpec none)).getD 0 0 :=
  ⟨by decide +kernel, Ex.good_jZYX, rfl, by decide +kernel⟩

/-- **end to end**: construction calls in, generalized forces out -/
theorem inverseDynamics_eq_newtonEuler_constructed (ops : List (Op α))
    (hg : goodRun (ModelS.init : ModelS α) ops) (h2 : (2 : α) ≠ 0) (w : WS α)
    (hw : WSFixed ((ModelS.init : ModelS α).run ops) w) (st : QS α)
    (hst : StateOK ((ModelS.init : ModelS α).run ops) st) (qd qdd tau : VecN α)
    (fext : Option (Nat → SV α)) (x : Nat) (hx : x < ((ModelS.init : ModelS α).run ops).dofCount) :
    (inverseDynamics ((ModelS.init : ModelS α).run ops) w st qd qdd tau fext).2 x
      = (newtonEulerTau (specOf ops) (stateOf st qd qdd) (fextSpec fext)).getD x 0 :=
  have h := refines_by_construction ops hg
  inverseDynamics_eq_newtonEuler h.1 h.2 h2 w hw st hst qd qdd tau fext x hx
example (x : Nat) (hx : x < Ex.m.dofCount) :=
  inverseDynamics_eq_newtonEuler_constructed Ex.ops Ex.ops_good Ex.two_ne Ex.w1 Ex.w1_fixed Ex.st
    Ex.st_ok Ex.qd Ex.qdd Ex.tau0 (some Ex.fe) x hx

/-! ### Stage D — models with fixed bodies -/

/-- **Stage D — arbitrary trees with fixed bodies** (kept as separate bodies by the specification,
    merged by `Body::Join` in the model): same statement for the relation `RefinesF`. -/
theorem inverseDynamics_eq_newtonEuler_fixed {m : ModelS α} {M : SModel α} {off : Nat → XT α}
    {nodeOf : Nat → Nat} (hm : ModelOK m) (hR : RefinesF m M off nodeOf) (h2 : (2 : α) ≠ 0)
    (w : WS α) (hw : WSFixed m w) (st : QS α) (hst : StateOK m st) (qd qdd tau : VecN α)
    (fext : Option (Nat → SV α)) (x : Nat) (hx : x < m.dofCount) :
    (inverseDynamics m w st qd qdd tau fext).2 x
      = (newtonEulerTau M (stateOf st qd qdd) (fextSpec fext)).getD x 0 :=
  id_eq_specF hm hR h2 w hw st hst qd qdd tau fext x hx

/-- floating base + revolute + fixed on movable + fixed on fixed + Euler joint on a fixed body +
    custom joint + fixed on the base (`L01Cap.ExF`), poisoned workspace, external forces -/
example (x : Nat) (hx : x < ExF.m.dofCount) :=
  inverseDynamics_eq_newtonEuler_fixed ExF.m_ok ExF.m_refines Ex.two_ne ExF.w1 ExF.w1_fixed ExF.st
    ExF.st_ok Ex.qd Ex.qdd Ex.tau0 (some Ex.fe) x hx

/-- **Stages D + E — `RefinesF` is established by construction** (fixed bodies, floating base, custom
    joints, parents that are fixed bodies) -/
theorem refinesF_by_construction (ops : List (Op α))
    (hg : goodRunF (ModelS.init : ModelS α) ops) :
    ModelOK ((ModelS.init : ModelS α).run ops) ∧
    RefinesF ((ModelS.init : ModelS α).run ops) (specOf ops)
      (offOf ((ModelS.init : ModelS α).run ops) ((PB.init : PB α).run ops).sb.M)
      (lookupNode ((PB.init : PB α).run ops).sb.idMap) :=
  L01Cap.refinesF_by_construction ops hg
example := refinesF_by_construction ExF.ops ExF.ops_good

/-- **end to end, with fixed bodies**: construction calls in, generalized forces out — the strongest
    statement of this file -/
theorem inverseDynamics_eq_newtonEuler_constructedF (ops : List (Op α))
    (hg : goodRunF (ModelS.init : ModelS α) ops) (h2 : (2 : α) ≠ 0) (w : WS α)
    (hw : WSFixed ((ModelS.init : ModelS α).run ops) w) (st : QS α)
    (hst : StateOK ((ModelS.init : ModelS α).run ops) st) (qd qdd tau : VecN α)
    (fext : Option (Nat → SV α)) (x : Nat) (hx : x < ((ModelS.init : ModelS α).run ops).dofCount) :
    (inverseDynamics ((ModelS.init : ModelS α).run ops) w st qd qdd tau fext).2 x
      = (newtonEulerTau (specOf ops) (stateOf st qd qdd) (fextSpec fext)).getD x 0 :=
  have h := refinesF_by_construction ops hg
  inverseDynamics_eq_newtonEuler_fixed h.1 h.2 h2 w hw st hst qd qdd tau fext x hx
example (x : Nat) (hx : x < ExF.m.dofCount) :=
  inverseDynamics_eq_newtonEuler_constructedF ExF.ops ExF.ops_good Ex.two_ne ExF.w1 ExF.w1_fixed
    ExF.st ExF.st_ok Ex.qd Ex.qdd Ex.tau0 (some Ex.fe) x hx

/-- numerical sanity check with fixed bodies (6 movable bodies incl. the base, 3 fixed bodies, 9 nodes,
    12 DoF): a translation coordinate of the floating base, the revolute "thigh" (which carries the two
    fixed bodies and the shank), an Euler coordinate of the shank attached to the fixed body, and a
    coordinate of the custom joint -/
example : (inverseDynamics ExF.m ExF.w1 ExF.st Ex.qd Ex.qdd Ex.tau0 (some Ex.fe)).2 0
    = (newtonEulerTau ExF.M (stateOf ExF.st Ex.qd Ex.qdd) (fextSpec (some Ex.fe))).getD 0 0 := by
  decide +kernel
example : (inverseDynamics ExF.m ExF.w1 ExF.st Ex.qd Ex.qdd Ex.tau0 (some Ex.fe)).2 6
    = (newtonEulerTau ExF.M (stateOf ExF.st Ex.qd Ex.qdd) (fextSpec (some Ex.fe))).getD 6 0 := by
  decide +kernel
example : (inverseDynamics ExF.m ExF.w1 ExF.st Ex.qd Ex.qdd Ex.tau0 (some Ex.fe)).2 8
    = (newtonEulerTau ExF.M (stateOf ExF.st Ex.qd Ex.qdd) (fextSpec (some Ex.fe))).getD 8 0 := by
  decide +kernel
example : (inverseDynamics ExF.m ExF.w0 ExF.st Ex.qd Ex.qdd Ex.tau0 none).2 11
    = (newtonEulerTau ExF.M (stateOf ExF.st Ex.qd Ex.qdd) (fextSpec none)).getD 11 0 := by
  decide +kernel
/-- the model has merged the fixed bodies (6 movable bodies incl. the base), the specification has not
    (9 nodes) -/
example : ExF.m.nBodies = 6 ∧ ExF.m.fixedBodies.length = 3 ∧ ExF.M.nodes.length = 9 ∧
    ExF.m.dofCount = 12 := ⟨ExF.m_n, ExF.m_fixed, ExF.M_nodes, ExF.m_dof⟩

end Rbdl.C01Cap
