import RbdlProofs.Lemmas.LCapMultiEx
import RbdlProofs.Props.C01Cap
import RbdlProofs.Props.C02Cap
import RbdlProofs.Props.C03Cap
import RbdlProofs.Props.C04Cap
import RbdlProofs.Props.C05Cap
import RbdlProofs.Props.C06Cap
import RbdlProofs.Props.C12Cap
/-
  Capstones for models with **emulated multi-DoF joints** (`Joint(axis_0, …, axis_{k-1})`, `2 ≤ k ≤ 6`:
  `Model::AddBody` builds a chain of 1-DoF joints through massless virtual bodies; the specification
  takes the list of axes, `Spec.JDesc.axes`, as the test harness passes it).

  Before: `goodRun` / `goodRunF` accepted only joints that create one body, the fixed joint and the
  floating base; for the emulated joints `Refines` / `RefinesF` stayed a hypothesis.  Here:

  * `goodRunMF init ops`  (`Lemmas/LCapMultiRun.lean`) = `goodRunF`'s operations **plus** `AddBody` /
    `AppendBody` with a joint of one of the types `JointTypeNDoF` with a non-empty list of axes (`chainOK`:
    rotation joint frame, real body with symmetric inertia).  **No axis is excluded**: pure rotations about
    any axis, pure translations along any axis, helical axes (both parts non-zero), even the zero axis are
    accepted by the construction; `StateOK` asks, as before, for a unit rotation axis where the joint rotates.
  * `specOfM ops`  the specification model built in parallel by `Spec.SB.add` + `SModel.finalize`, with
    `JDesc.axes j.axes` for the emulated joints (= `specOf ops` on `goodRunF` sequences).
  * The syntactic mismatch.  For the axis `a` the code stores `Joint(a)`: type `Helical` unless `a` is a
    coordinate rotation axis or a pure translation, which `ModelS.sjoint` reads as `.helical a.w a.v`;
    the specification takes `axisJoint a = .revolute a.w` for a pure rotation.  So `RefinesF.mjoint` /
    `Refines.joint` (syntactic equality) is FALSE for such models (machine-checked below).  Resolution:
    `normJ` (a helical joint with zero pitch *is* a revolute joint), `normJ (codeJoint a) = axisJoint a`
    for EVERY axis, and `JointEqv (normJ j) j` (`JointEqv`: equal number of DoF, equal use of the
    quaternion index, equal `jointPose` over every commutative ring and every zero-preserving embedding).
  * The weak relations `RefinesW` / `RefinesFW` (`Lemmas/LCapMultiWeak.lean`) = `Refines` / `RefinesF` with
    the joint definitions compared by `JointEqv`; `RefinesFW.strong`: exchanging the joint definitions of
    `M` for those of the code gives `RefinesF`, and no function of the specification changes
    (`Lemmas/LCapMultiSpec.lean`: `newtonEulerTau`, `nodeKin` and all kinematic queries / Jacobians,
    `inertiaMatrix`, `kineticEnergy`, `totalMass`, `com…`, `potentialEnergy`, `angularMomentum`).
  * `refinesFW_by_construction`: `goodRunMF init ops → ModelOK (init.run ops) ∧ RefinesFW (init.run ops)
    (specOfM ops) …`;  `constructedMF`: the same with the strong relation for a model `M'` whose normal
    form is `specOfM ops`.

  * `goodRunM init ops` (`Lemmas/LCapMultiN.lean`) = `goodRun`'s operations plus the emulated joints: no
    fixed bodies, NO bound on the number of bodies; `refinesW_by_construction` gives `Refines` for a model
    whose normal form is `specOfM ops`, and `RefinesW` for `specOfM ops`; `VirtZero` (the massless links
    carry the zero inertia) and `OrderOK` hold by construction.

  All end-to-end capstones `…_constructedF` / `…_constructed` of C01–C06, C12 are restated for the
  extended classes (`…_constructedMF` / `…_constructedM`: same statements with `goodRunMF` / `goodRunM`
  and `specOfM`).  The hypotheses `har` / `hpiv` of C02 are as real as before: the first version of `Ex6`
  (axes z, (2,1,2)/3, x at cos = 4/5) sat in a gimbal lock, `d_4 = 0`.
-/
namespace Rbdl.CapMulti
open Lean.Grind Rbdl Rbdl.Spec Rbdl.L01Cap Rbdl.LCapMulti Rbdl.LDynCap Rbdl.LKinCap Rbdl.L02
open Rbdl.L05 (colSV zeroMat)
variable {α : Type} [Field α] [DecidableEq α]

/-! ### the extension is conservative -/

/-- every `goodRunF` sequence is a `goodRunMF` sequence, with the same specification model -/
theorem goodRunMF_of_goodRunF (ops : List (Op α)) (m : ModelS α) (hg : goodRunF m ops) :
    goodRunMF m ops := LCapMulti.goodRunMF_of_goodRunF ops m hg
theorem specOfM_eq_specOf (ops : List (Op α)) (hg : goodRunF (ModelS.init : ModelS α) ops) :
    specOfM ops = specOf ops := LCapMulti.specOfM_eq_specOf ops hg
example := goodRunMF_of_goodRunF ExF.ops _ ExF.ops_good
example := specOfM_eq_specOf ExF.ops ExF.ops_good

/-! ### the syntactic mismatch and its resolution -/

/-- for EVERY axis the specification's reading is the normal form of the code's reading -/
theorem normJ_codeJoint (a : SV α) : normJ (jointSj (Joint.ofAxis a)) = axisJoint a :=
  LCapMulti.normJ_codeJoint a

/-- a joint definition and its normal form are observationally equal -/
theorem normJ_eqv (j : SJoint α) : JointEqv (normJ j) j := LCapMulti.normJ_eqv j

/-- the mismatch is real: in `ExM` (3-axis rotational joint at the root) node 1 of the specification is
    the node of movable body 1, its joint is `.revolute`, the code's joint 1 reads as `.helical`; hence the
    syntactic relation `RefinesF` does NOT hold between the constructed model and `specOfM ops` -/
example (off : Nat → XT Rat) (nodeOf : Nat → Nat) : ¬ RefinesF ExM.m ExM.M off nodeOf := by
  intro h
  have hl : 1 < ExM.M.nodes.length := by rw [ExM.M_nodes]; decide
  have hget : ExM.M.nodes[1]? = some (ExM.M.nodes.getD 1 nd0) := by
    rw [List.getD_eq_getElem?_getD, List.getElem?_eq_getElem hl]; rfl
  have hN := h.node 1 _ (Nat.le_refl 1) hget
  have ha : (ExM.M.nodes.getD 1 nd0).apiId = (ExM.M.nodes.getD 1 nd0).movableId := by decide +kernel
  have hb : (ExM.M.nodes.getD 1 nd0).movableId = 1 := by decide +kernel
  have hj := hN.mjoint ha
  rw [hb] at hj
  have h1 : (match (ExM.M.nodes.getD 1 nd0).joint with | .revolute _ => true | _ => false) = true := by
    decide +kernel
  have h2 : (match ExM.m.sjoint 1 with | .helical _ _ => true | _ => false) = true := by
    decide +kernel
  rw [hj] at h1
  revert h1 h2
  cases ExM.m.sjoint 1 <;> simp

/-! ### the relation is established by construction -/

/-- **Stages D + E for the extended class** (weak relation, for the specification model itself):
    `ModelOK` and `RefinesFW (init.run ops) (specOfM ops)`, offsets and node lookup read off the
    specification builder -/
theorem refinesFW_by_construction (ops : List (Op α))
    (hg : goodRunMF (ModelS.init : ModelS α) ops) :
    ModelOK ((ModelS.init : ModelS α).run ops) ∧
    RefinesFW ((ModelS.init : ModelS α).run ops) (specOfM ops)
      (offOf ((ModelS.init : ModelS α).run ops) (runM (PB.init : PB α) ops).sb.M)
      (lookupNode (runM (PB.init : PB α) ops).sb.idMap) :=
  LCapMulti.refinesFW_by_construction ops hg
example := refinesFW_by_construction ExM.ops ExM.ops_good
example := refinesFW_by_construction Ex6.ops Ex6.ops_good

/-- **Stages D + E for the extended class** (strong relation): the constructed model satisfies
    `ModelOK`, `OrderOK`, the id bound, and refines syntactically (`RefinesF`, with `FixedIds`) a model
    `M'` whose normal form is the specification model -/
theorem refinesF_by_constructionM (ops : List (Op α))
    (hg : goodRunMF (ModelS.init : ModelS α) ops) :
    ∃ (M' : SModel α) (off : Nat → XT α) (nodeOf : Nat → Nat),
      ModelOK ((ModelS.init : ModelS α).run ops) ∧ RefinesF ((ModelS.init : ModelS α).run ops) M' off nodeOf ∧ FixedIds ((ModelS.init : ModelS α).run ops) M' off ∧ ((ModelS.init : ModelS α).run ops).nBodies ≤ fixedDisc ∧
      OrderOK ((ModelS.init : ModelS α).run ops) ∧ specOfM ops = normM M' :=
  constructedMF ops hg
example := refinesF_by_constructionM ExM.ops ExM.ops_good

/-- the weak relation turns into the strong one when the joint definitions of the specification are
    exchanged for those of the code; no function of the specification notices (`LCapMultiSpec`) -/
theorem refinesFW_strong {m : ModelS α} {M : SModel α} {off : Nat → XT α} {nodeOf : Nat → Nat}
    (h : RefinesFW m M off nodeOf) :
    RefinesF m (mapJ (reJ m) M) off nodeOf ∧ (∀ nd ∈ M.nodes, JointEqv (reJ m nd) nd.joint) :=
  ⟨h.strong, reJ_eqvF h⟩
theorem refinesW_strong {m : ModelS α} {M : SModel α} (h : RefinesW m M) :
    Refines m (mapJ (reJ m) M) ∧ (∀ nd ∈ M.nodes, JointEqv (reJ m nd) nd.joint) :=
  ⟨h.strong, reJ_eqv h⟩
example := refinesFW_strong ExM.m_refines
/-- the strong relations imply the weak ones -/
theorem refinesFW_of_refinesF {m : ModelS α} {M : SModel α} {off : Nat → XT α} {nodeOf : Nat → Nat}
    (h : RefinesF m M off nodeOf) : RefinesFW m M off nodeOf := LCapMulti.refinesFW_of_refinesF h
theorem refinesW_of_refines {m : ModelS α} {M : SModel α} (h : Refines m M) : RefinesW m M :=
  LCapMulti.refinesW_of_refines h
example := refinesFW_of_refinesF ExF.m_refines
example := refinesW_of_refines Ex.m_refines
example := refinesW_strong (refinesW_of_refines Ex.m_refines)

/-! ### C01: `InverseDynamics` -/

/-- **the C01 capstone for the weak relation** (arbitrary trees with fixed bodies; joint definitions of the
    specification equal to the code's up to `JointEqv`) -/
theorem inverseDynamics_eq_newtonEuler_weakF {m : ModelS α} {M : SModel α} {off : Nat → XT α}
    {nodeOf : Nat → Nat} (hm : ModelOK m) (hR : RefinesFW m M off nodeOf) (h2 : (2 : α) ≠ 0)
    (w : WS α) (hw : WSFixed m w) (st : QS α) (hst : StateOK m st) (qd qdd tau : VecN α)
    (fext : Option (Nat → SV α)) (x : Nat) (hx : x < m.dofCount) :
    (inverseDynamics m w st qd qdd tau fext).2 x
      = (newtonEulerTau M (stateOf st qd qdd) (fextSpec fext)).getD x 0 :=
  id_eq_specF_weak hm hR h2 w hw st hst qd qdd tau fext x hx
example (x : Nat) (hx : x < ExM.m.dofCount) :=
  inverseDynamics_eq_newtonEuler_weakF ExM.m_ok ExM.m_refines Ex.two_ne ExM.w1 ExM.w1_fixed ExM.st
    ExM.st_ok Ex.qd Ex.qdd Ex.tau0 (some Ex.fe) x hx

/-- … without fixed bodies -/
theorem inverseDynamics_eq_newtonEuler_weak {m : ModelS α} {M : SModel α} (hm : ModelOK m)
    (hR : RefinesW m M) (h2 : (2 : α) ≠ 0) (w : WS α) (hw : WSFixed m w) (st : QS α)
    (hst : StateOK m st) (qd qdd tau : VecN α) (fext : Option (Nat → SV α)) (x : Nat)
    (hx : x < m.dofCount) :
    (inverseDynamics m w st qd qdd tau fext).2 x
      = (newtonEulerTau M (stateOf st qd qdd) (fextSpec fext)).getD x 0 :=
  id_eq_spec_weak hm hR h2 w hw st hst qd qdd tau fext x hx
example (x : Nat) (hx : x < Ex.m.dofCount) :=
  inverseDynamics_eq_newtonEuler_weak Ex.m_ok (refinesW_of_refines Ex.m_refines) Ex.two_ne Ex.w1
    Ex.w1_fixed Ex.st Ex.st_ok Ex.qd Ex.qdd Ex.tau0 (some Ex.fe) x hx

/-- **end to end, emulated multi-DoF joints, fixed bodies, floating bases, custom joints**: construction
    calls in, generalized forces out — the strongest statement of this file -/
theorem inverseDynamics_eq_newtonEuler_constructedMF (ops : List (Op α))
    (hg : goodRunMF (ModelS.init : ModelS α) ops) (h2 : (2 : α) ≠ 0) (w : WS α)
    (hw : WSFixed ((ModelS.init : ModelS α).run ops) w) (st : QS α)
    (hst : StateOK ((ModelS.init : ModelS α).run ops) st) (qd qdd tau : VecN α)
    (fext : Option (Nat → SV α)) (x : Nat) (hx : x < ((ModelS.init : ModelS α).run ops).dofCount) :
    (inverseDynamics ((ModelS.init : ModelS α).run ops) w st qd qdd tau fext).2 x
      = (newtonEulerTau (specOfM ops) (stateOf st qd qdd) (fextSpec fext)).getD x 0 := by
  obtain ⟨M', off, nodeOf, hm, hR, hI, hcap, hord, hs⟩ := constructedMF ops hg
  rw [hs, normM_newtonEulerTau]
  exact id_eq_specF hm hR h2 w hw st hst qd qdd tau fext x hx
example (x : Nat) (hx : x < ExM.m.dofCount) :=
  inverseDynamics_eq_newtonEuler_constructedMF ExM.ops ExM.ops_good Ex.two_ne ExM.w1 ExM.w1_fixed
    ExM.st ExM.st_ok Ex.qd Ex.qdd Ex.tau0 (some Ex.fe) x hx
example (x : Nat) (hx : x < Ex6.m.dofCount) :=
  inverseDynamics_eq_newtonEuler_constructedMF Ex6.ops Ex6.ops_good Ex.two_ne Ex6.w1 Ex6.w1_fixed
    ExM.st Ex6.st_ok Ex.qd Ex.qdd Ex.tau0 (some Ex.fe) x hx

/-- the whole vector -/
theorem inverseDynamics_eq_newtonEuler_list_constructedMF (ops : List (Op α))
    (hg : goodRunMF (ModelS.init : ModelS α) ops) (h2 : (2 : α) ≠ 0) (w : WS α)
    (hw : WSFixed ((ModelS.init : ModelS α).run ops) w) (st : QS α) (hst : StateOK ((ModelS.init : ModelS α).run ops) st) (qd qdd tau : VecN α)
    (fext : Option (Nat → SV α)) :
    (List.range ((ModelS.init : ModelS α).run ops).dofCount).map (fun x => (inverseDynamics ((ModelS.init : ModelS α).run ops) w st qd qdd tau fext).2 x)
      = newtonEulerTau (specOfM ops) (stateOf st qd qdd) (fextSpec fext) := by
  have hnv : (specOfM ops).nv = ((ModelS.init : ModelS α).run ops).dofCount := (refinesFW_by_construction ops hg).2.nv
  have hlen : (newtonEulerTau (specOfM ops) (stateOf st qd qdd) (fextSpec fext)).length
      = ((ModelS.init : ModelS α).run ops).dofCount := by
    unfold newtonEulerTau
    simp only [List.length_map, List.length_range]
    exact hnv
  apply List.ext_getElem
  · rw [List.length_map, List.length_range, hlen]
  · intro x h1 h2'
    rw [List.length_map, List.length_range] at h1
    rw [List.getElem_map, List.getElem_range,
      inverseDynamics_eq_newtonEuler_constructedMF ops hg h2 w hw st hst qd qdd tau fext x h1,
      List.getD_eq_getElem?_getD, List.getElem?_eq_getElem h2']
    rfl
example := inverseDynamics_eq_newtonEuler_list_constructedMF ExM.ops ExM.ops_good Ex.two_ne ExM.w1
  ExM.w1_fixed ExM.st ExM.st_ok Ex.qd Ex.qdd Ex.tau0 (some Ex.fe)

/-- numerical sanity checks (kernel evaluation over `Rat`, both sides computed independently): the
    3-axis rotational joint at the root with child and fixed body — all four generalized forces, poisoned
    workspace, external forces on every body -/
example : (inverseDynamics ExM.m ExM.w1 ExM.st Ex.qd Ex.qdd Ex.tau0 (some Ex.fe)).2 0
    = (newtonEulerTau ExM.M (stateOf ExM.st Ex.qd Ex.qdd) (fextSpec (some Ex.fe))).getD 0 0 := by
  decide +kernel
example : (inverseDynamics ExM.m ExM.w1 ExM.st Ex.qd Ex.qdd Ex.tau0 (some Ex.fe)).2 1
    = (newtonEulerTau ExM.M (stateOf ExM.st Ex.qd Ex.qdd) (fextSpec (some Ex.fe))).getD 1 0 := by
  decide +kernel
example : (inverseDynamics ExM.m ExM.w1 ExM.st Ex.qd Ex.qdd Ex.tau0 (some Ex.fe)).2 2
    = (newtonEulerTau ExM.M (stateOf ExM.st Ex.qd Ex.qdd) (fextSpec (some Ex.fe))).getD 2 0 := by
  decide +kernel
example : (inverseDynamics ExM.m ExM.w1 ExM.st Ex.qd Ex.qdd Ex.tau0 (some Ex.fe)).2 3
    = (newtonEulerTau ExM.M (stateOf ExM.st Ex.qd Ex.qdd) (fextSpec (some Ex.fe))).getD 3 0 := by
  decide +kernel
/-- … without external forces on the workspace the construction code leaves -/
example : (inverseDynamics ExM.m ExM.w0 ExM.st Ex.qd Ex.qdd Ex.tau0 none).2 0
    = (newtonEulerTau ExM.M (stateOf ExM.st Ex.qd Ex.qdd) (fextSpec none)).getD 0 0 := by
  decide +kernel
/-- the value itself is not a trivial number -/
example : (inverseDynamics ExM.m ExM.w1 ExM.st Ex.qd Ex.qdd Ex.tau0 (some Ex.fe)).2 0 ≠ 0 := by
  decide +kernel
/-- the 6-axis joint (3 translations + 3 rotations) with a child: all seven generalized forces -/
example : (inverseDynamics Ex6.m Ex6.w1 ExM.st Ex.qd Ex.qdd Ex.tau0 (some Ex.fe)).2 0
    = (newtonEulerTau Ex6.M (stateOf ExM.st Ex.qd Ex.qdd) (fextSpec (some Ex.fe))).getD 0 0 := by
  decide +kernel
example : (inverseDynamics Ex6.m Ex6.w1 ExM.st Ex.qd Ex.qdd Ex.tau0 (some Ex.fe)).2 1
    = (newtonEulerTau Ex6.M (stateOf ExM.st Ex.qd Ex.qdd) (fextSpec (some Ex.fe))).getD 1 0 := by
  decide +kernel
example : (inverseDynamics Ex6.m Ex6.w1 ExM.st Ex.qd Ex.qdd Ex.tau0 (some Ex.fe)).2 2
    = (newtonEulerTau Ex6.M (stateOf ExM.st Ex.qd Ex.qdd) (fextSpec (some Ex.fe))).getD 2 0 := by
  decide +kernel
example : (inverseDynamics Ex6.m Ex6.w1 ExM.st Ex.qd Ex.qdd Ex.tau0 (some Ex.fe)).2 3
    = (newtonEulerTau Ex6.M (stateOf ExM.st Ex.qd Ex.qdd) (fextSpec (some Ex.fe))).getD 3 0 := by
  decide +kernel
example : (inverseDynamics Ex6.m Ex6.w1 ExM.st Ex.qd Ex.qdd Ex.tau0 (some Ex.fe)).2 4
    = (newtonEulerTau Ex6.M (stateOf ExM.st Ex.qd Ex.qdd) (fextSpec (some Ex.fe))).getD 4 0 := by
  decide +kernel
example : (inverseDynamics Ex6.m Ex6.w1 ExM.st Ex.qd Ex.qdd Ex.tau0 (some Ex.fe)).2 5
    = (newtonEulerTau Ex6.M (stateOf ExM.st Ex.qd Ex.qdd) (fextSpec (some Ex.fe))).getD 5 0 := by
  decide +kernel
example : (inverseDynamics Ex6.m Ex6.w1 ExM.st Ex.qd Ex.qdd Ex.tau0 (some Ex.fe)).2 6
    = (newtonEulerTau Ex6.M (stateOf ExM.st Ex.qd Ex.qdd) (fextSpec (some Ex.fe))).getD 6 0 := by
  decide +kernel
example : ExM.m.nBodies = 5 ∧ ExM.m.fixedBodies.length = 1 ∧ ExM.M.nodes.length = 6 ∧
    ExM.m.dofCount = 4 ∧ Ex6.m.nBodies = 8 ∧ Ex6.M.nodes.length = 8 ∧ Ex6.m.dofCount = 7 :=
  ⟨ExM.m_n, ExM.m_fixed, ExM.M_nodes, ExM.m_dof, Ex6.m_n, Ex6.M_nodes, Ex6.m_dof⟩

/-! ### C02, C03: `ForwardDynamics`, `CalcMInvTimesTau`, `NonlinearEffects`, `CompositeRigidBodyAlgorithm`, `CalcKineticEnergy` -/

/-- `ForwardDynamics` returns a solution of the first-principles equations of motion -/
theorem forwardDynamics_solves_newtonEuler_constructedMF (ops : List (Op α))
    (hg : goodRunMF (ModelS.init : ModelS α) ops) (h2 : (2 : α) ≠ 0) (w : WS α)
    (hw : WSFixed ((ModelS.init : ModelS α).run ops) w) (st : QS α)
    (hst : StateOK ((ModelS.init : ModelS α).run ops) st) (qd tau q0 : VecN α)
    (fext : Option (Nat → SV α))
    (har : ∀ i, 1 ≤ i → i < ((ModelS.init : ModelS α).run ops).nBodies → ((ModelS.init : ModelS α).run ops).arity i = .one ∨ ((ModelS.init : ModelS α).run ops).arity i = .three)
    (hpiv : ∀ i, 1 ≤ i → i < ((ModelS.init : ModelS α).run ops).nBodies → pivotOk ((ModelS.init : ModelS α).run ops) (forwardDynamics ((ModelS.init : ModelS α).run ops) w st qd tau q0 fext).1 i)
    (x : Nat) (hx : x < ((ModelS.init : ModelS α).run ops).dofCount) :
    (newtonEulerTau (specOfM ops) (stateOf st qd (forwardDynamics ((ModelS.init : ModelS α).run ops) w st qd tau q0 fext).2)
      (fextSpec fext)).getD x 0 = tau x := by
  obtain ⟨M', off, nodeOf, hm, hR, hI, hcap, hord, hs⟩ := constructedMF ops hg
  rw [hs, normM_newtonEulerTau]
  exact C02Cap.forwardDynamics_solves_newtonEuler_fixed hm hR h2 w hw st hst qd tau q0 fext har hpiv x hx
example (x : Nat) (hx : x < ExM.m.dofCount) :=
  forwardDynamics_solves_newtonEuler_constructedMF ExM.ops ExM.ops_good Ex.two_ne ExM.w1 ExM.w1_fixed ExM.st ExM.st_ok Ex.qd exTau Ex.qdd
    (some Ex.fe) ExM.m_ar ExM.m_piv x hx
/-- numerical check: the specification evaluated at the accelerations of `forwardDynamics` (through the
    massless links) returns the applied forces -/
example : (newtonEulerTau ExM.M (stateOf ExM.st Ex.qd
      (forwardDynamics ExM.m ExM.w1 ExM.st Ex.qd exTau Ex.qdd (some Ex.fe)).2)
      (fextSpec (some Ex.fe))).getD 0 0 = exTau 0 := by decide +kernel

/-- `CalcMInvTimesTau` solves `H x = τ` with the first-principles inertia matrix -/
theorem calcMInvTimesTau_solves_constructedMF (ops : List (Op α))
    (hg : goodRunMF (ModelS.init : ModelS α) ops) (h2 : (2 : α) ≠ 0) (w : WS α)
    (hw : WSFixed ((ModelS.init : ModelS α).run ops) w) (st : QS α)
    (hst : StateOK ((ModelS.init : ModelS α).run ops) st) (qd qdd tau q0 : VecN α)
    (har : ∀ i, 1 ≤ i → i < ((ModelS.init : ModelS α).run ops).nBodies → ((ModelS.init : ModelS α).run ops).arity i = .one ∨ ((ModelS.init : ModelS α).run ops).arity i = .three)
    (hpiv : ∀ i, 1 ≤ i → i < ((ModelS.init : ModelS α).run ops).nBodies → pivotOk ((ModelS.init : ModelS α).run ops) (calcMInvTimesTau ((ModelS.init : ModelS α).run ops) w st tau q0 true).1 i)
    (r : Nat) (hr : r < ((ModelS.init : ModelS α).run ops).dofCount) :
    sumTo ((ModelS.init : ModelS α).run ops).dofCount (fun c =>
      (inertiaMatrix (specOfM ops) (stateOf st qd qdd)).getD (r * ((ModelS.init : ModelS α).run ops).dofCount + c) 0
        * (calcMInvTimesTau ((ModelS.init : ModelS α).run ops) w st tau q0 true).2 c) = tau r := by
  obtain ⟨M', off, nodeOf, hm, hR, hI, hcap, hord, hs⟩ := constructedMF ops hg
  rw [hs, normM_inertiaMatrix]
  exact C02Cap.calcMInvTimesTau_solves_fixed hm hR hord h2 w hw st hst qd qdd tau q0 har hpiv r hr
example (r : Nat) (hr : r < ExM.m.dofCount) :=
  calcMInvTimesTau_solves_constructedMF ExM.ops ExM.ops_good Ex.two_ne ExM.w1 ExM.w1_fixed ExM.st ExM.st_ok Ex.qd Ex.qdd exTau Ex.qdd
    ExM.m_ar ExM.m_piv_cmt r hr

/-- `NonlinearEffects` = first-principles Newton–Euler forces at `q̈ = 0` -/
theorem nonlinearEffects_eq_newtonEuler_constructedMF (ops : List (Op α))
    (hg : goodRunMF (ModelS.init : ModelS α) ops) (h2 : (2 : α) ≠ 0) (w : WS α)
    (hw : WSFixed ((ModelS.init : ModelS α).run ops) w) (st : QS α)
    (hst : StateOK ((ModelS.init : ModelS α).run ops) st) (qd tau : VecN α)
    (fext : Option (Nat → SV α)) (x : Nat) (hx : x < ((ModelS.init : ModelS α).run ops).dofCount) :
    (nonlinearEffects ((ModelS.init : ModelS α).run ops) w st qd tau fext).2 x
      = (newtonEulerTau (specOfM ops) (stateOf st qd (fun _ => 0)) (fextSpec fext)).getD x 0 := by
  obtain ⟨M', off, nodeOf, hm, hR, hI, hcap, hord, hs⟩ := constructedMF ops hg
  rw [hs, normM_newtonEulerTau]
  exact C03Cap.nonlinearEffects_eq_newtonEuler_fixed hm hR hord h2 w hw st hst qd tau fext x hx
example (x : Nat) (hx : x < ExM.m.dofCount) :=
  nonlinearEffects_eq_newtonEuler_constructedMF ExM.ops ExM.ops_good Ex.two_ne ExM.w1 ExM.w1_fixed
    ExM.st ExM.st_ok Ex.qd Ex.tau0 (some Ex.fe) x hx

/-- `CompositeRigidBodyAlgorithm` = first-principles joint-space inertia matrix -/
theorem crba_eq_inertiaMatrix_constructedMF (ops : List (Op α))
    (hg : goodRunMF (ModelS.init : ModelS α) ops) (h2 : (2 : α) ≠ 0) (w : WS α)
    (hw : WSFixed ((ModelS.init : ModelS α).run ops) w) (st : QS α)
    (hst : StateOK ((ModelS.init : ModelS α).run ops) st) (qd qdd : VecN α) (r c : Nat)
    (hr : r < ((ModelS.init : ModelS α).run ops).dofCount) (hc : c < ((ModelS.init : ModelS α).run ops).dofCount) :
    (crba ((ModelS.init : ModelS α).run ops) w st (fun _ _ => 0) true).2 r c
      = (inertiaMatrix (specOfM ops) (stateOf st qd qdd)).getD (r * ((ModelS.init : ModelS α).run ops).dofCount + c) 0 := by
  obtain ⟨M', off, nodeOf, hm, hR, hI, hcap, hord, hs⟩ := constructedMF ops hg
  rw [hs, normM_inertiaMatrix]
  exact C03Cap.crba_eq_inertiaMatrix_fixed hm hR h2 w hw st hst qd qdd r c hr hc
example (r c : Nat) (hr : r < ExM.m.dofCount) (hc : c < ExM.m.dofCount) :=
  crba_eq_inertiaMatrix_constructedMF ExM.ops ExM.ops_good Ex.two_ne ExM.w1 ExM.w1_fixed ExM.st
    ExM.st_ok Ex.qd Ex.qdd r c hr hc
example : (crba ExM.m ExM.w1 ExM.st (fun _ _ => 0) true).2 0 2
    = (inertiaMatrix ExM.M (stateOf ExM.st Ex.qd Ex.qdd)).getD (0 * 4 + 2) 0 := by decide +kernel
example : (crba ExM.m ExM.w1 ExM.st (fun _ _ => 0) true).2 0 2 ≠ 0 := by decide +kernel

/-- … the whole matrix, row-major -/
theorem crba_eq_inertiaMatrix_list_constructedMF (ops : List (Op α))
    (hg : goodRunMF (ModelS.init : ModelS α) ops) (h2 : (2 : α) ≠ 0) (w : WS α)
    (hw : WSFixed ((ModelS.init : ModelS α).run ops) w) (st : QS α)
    (hst : StateOK ((ModelS.init : ModelS α).run ops) st) (qd qdd : VecN α) :
    (List.range ((ModelS.init : ModelS α).run ops).dofCount).flatMap (fun r => (List.range ((ModelS.init : ModelS α).run ops).dofCount).map (fun c =>
        (crba ((ModelS.init : ModelS α).run ops) w st (fun _ _ => 0) true).2 r c))
      = inertiaMatrix (specOfM ops) (stateOf st qd qdd) := by
  obtain ⟨M', off, nodeOf, hm, hR, hI, hcap, hord, hs⟩ := constructedMF ops hg
  rw [hs, normM_inertiaMatrix]
  exact C03Cap.crba_eq_inertiaMatrix_list_fixed hm hR h2 w hw st hst qd qdd
example := crba_eq_inertiaMatrix_list_constructedMF ExM.ops ExM.ops_good Ex.two_ne ExM.w1 ExM.w1_fixed ExM.st ExM.st_ok Ex.qd Ex.qdd

/-- `CalcKineticEnergy` = `Spec.kineticEnergy` -/
theorem calcKineticEnergy_eq_spec_constructedMF (ops : List (Op α))
    (hg : goodRunMF (ModelS.init : ModelS α) ops) (h2 : (2 : α) ≠ 0) (w : WS α)
    (hw : WSFixed ((ModelS.init : ModelS α).run ops) w) (st : QS α)
    (hst : StateOK ((ModelS.init : ModelS α).run ops) st) (qd qdd : VecN α) :
    (calcKineticEnergy ((ModelS.init : ModelS α).run ops) w st qd true).2 = kineticEnergy (specOfM ops) (stateOf st qd qdd) := by
  obtain ⟨M', off, nodeOf, hm, hR, hI, hcap, hord, hs⟩ := constructedMF ops hg
  rw [hs, normM_kineticEnergy]
  exact C03Cap.calcKineticEnergy_eq_spec_fixed hm hR h2 w hw st hst qd qdd
example := calcKineticEnergy_eq_spec_constructedMF Ex6.ops Ex6.ops_good Ex.two_ne Ex6.w1 Ex6.w1_fixed
  ExM.st Ex6.st_ok Ex.qd Ex.qdd
example : (calcKineticEnergy ExM.m ExM.w1 ExM.st Ex.qd true).2
    = kineticEnergy ExM.M (stateOf ExM.st Ex.qd Ex.qdd) := by decide +kernel

/-! ### C04, C05, C06: kinematic queries and Jacobians, every valid body id (incl. the massless links) -/

/-- `CalcBodyToBaseCoordinates` -/
theorem calcBodyToBaseCoordinates_eq_spec_constructedMF (ops : List (Op α))
    (hg : goodRunMF (ModelS.init : ModelS α) ops) (w : WS α)
    (hw : WSFixed ((ModelS.init : ModelS α).run ops) w) (st : QS α) (qd qdd : VecN α) (id : Nat)
    (hid : ((ModelS.init : ModelS α).run ops).validId id) (p : V3 α) :
    (calcBodyToBaseCoordinates ((ModelS.init : ModelS α).run ops) w st id p true).2
      = Spec.bodyToBase (specOfM ops) (stateOf st qd qdd) id p := by
  obtain ⟨M', off, nodeOf, hm, hR, hI, hcap, hord, hs⟩ := constructedMF ops hg
  rw [hs, normM_bodyToBase]
  exact C04Cap.calcBodyToBaseCoordinates_eq_spec_fixed hm hR hI hcap w hw st qd qdd id hid p
example (p : V3 Rat) :=
  calcBodyToBaseCoordinates_eq_spec_constructedMF ExM.ops ExM.ops_good ExM.w1 ExM.w1_fixed ExM.st
    Ex.qd Ex.qdd fixedDisc (Or.inr (by decide +kernel)) p
example : (calcBodyToBaseCoordinates ExM.m ExM.w1 ExM.st fixedDisc ⟨1, 2, 3⟩ true).2
    = Spec.bodyToBase ExM.M (stateOf ExM.st Ex.qd Ex.qdd) fixedDisc ⟨1, 2, 3⟩ := by decide +kernel

/-- `CalcBaseToBodyCoordinates` -/
theorem calcBaseToBodyCoordinates_eq_spec_constructedMF (ops : List (Op α))
    (hg : goodRunMF (ModelS.init : ModelS α) ops) (w : WS α)
    (hw : WSFixed ((ModelS.init : ModelS α).run ops) w) (st : QS α)
    (hst : StateOK ((ModelS.init : ModelS α).run ops) st) (qd qdd : VecN α) (id : Nat)
    (hid : ((ModelS.init : ModelS α).run ops).validId id) (p : V3 α) :
    (calcBaseToBodyCoordinates ((ModelS.init : ModelS α).run ops) w st id p true).2
      = Spec.baseToBody (specOfM ops) (stateOf st qd qdd) id p := by
  obtain ⟨M', off, nodeOf, hm, hR, hI, hcap, hord, hs⟩ := constructedMF ops hg
  rw [hs, normM_baseToBody]
  exact C04Cap.calcBaseToBodyCoordinates_eq_spec_fixed hm hR hI hcap w hw st hst qd qdd id hid p
example (p : V3 Rat) :=
  calcBaseToBodyCoordinates_eq_spec_constructedMF ExM.ops ExM.ops_good ExM.w1 ExM.w1_fixed ExM.st ExM.st_ok Ex.qd Ex.qdd
    2 (Or.inl (by decide +kernel)) p

/-- `CalcBodyWorldOrientation` -/
theorem calcBodyWorldOrientation_eq_spec_constructedMF (ops : List (Op α))
    (hg : goodRunMF (ModelS.init : ModelS α) ops) (w : WS α)
    (hw : WSFixed ((ModelS.init : ModelS α).run ops) w) (st : QS α) (qd qdd : VecN α) (id : Nat)
    (hid : ((ModelS.init : ModelS α).run ops).validId id) :
    (calcBodyWorldOrientation ((ModelS.init : ModelS α).run ops) w st id true).2
      = Spec.orientation (specOfM ops) (stateOf st qd qdd) id := by
  obtain ⟨M', off, nodeOf, hm, hR, hI, hcap, hord, hs⟩ := constructedMF ops hg
  rw [hs, normM_orientation]
  exact C04Cap.calcBodyWorldOrientation_eq_spec_fixed hm hR hI hcap w hw st qd qdd id hid
example :=
  calcBodyWorldOrientation_eq_spec_constructedMF ExM.ops ExM.ops_good ExM.w1 ExM.w1_fixed ExM.st Ex.qd Ex.qdd (fixedDisc) (Or.inr (by decide +kernel))

/-- `CalcPointJacobian6D`, column form -/
theorem calcPointJacobian6D_col_eq_spec_constructedMF (ops : List (Op α))
    (hg : goodRunMF (ModelS.init : ModelS α) ops) (h2 : (2 : α) ≠ 0) (w : WS α)
    (hw : WSFixed ((ModelS.init : ModelS α).run ops) w) (st : QS α)
    (hst : StateOK ((ModelS.init : ModelS α).run ops) st) (qd qdd : VecN α) (id : Nat)
    (hid : ((ModelS.init : ModelS α).run ops).validId id) (p : V3 α) (x : Nat)
    (hx : x < ((ModelS.init : ModelS α).run ops).dofCount) :
    colSV (calcPointJacobian6D ((ModelS.init : ModelS α).run ops) w st id p zeroMat true).2 x
      = Spec.pointJacobian6DCol (specOfM ops) (stateOf st qd qdd) id p x := by
  obtain ⟨M', off, nodeOf, hm, hR, hI, hcap, hord, hs⟩ := constructedMF ops hg
  rw [hs, normM_pointJacobian6DCol]
  exact C05Cap.calcPointJacobian6D_col_eq_spec_fixed hm hR hI hcap h2 w hw st hst qd qdd id hid p x hx
example (p : V3 Rat) (x : Nat) (hx : x < ExM.m.dofCount) :=
  calcPointJacobian6D_col_eq_spec_constructedMF ExM.ops ExM.ops_good Ex.two_ne ExM.w1 ExM.w1_fixed ExM.st ExM.st_ok Ex.qd Ex.qdd
    (fixedDisc) (Or.inr (by decide +kernel)) p x hx

/-- `CalcPointJacobian6D`, list form -/
theorem calcPointJacobian6D_eq_spec_constructedMF (ops : List (Op α))
    (hg : goodRunMF (ModelS.init : ModelS α) ops) (h2 : (2 : α) ≠ 0) (w : WS α)
    (hw : WSFixed ((ModelS.init : ModelS α).run ops) w) (st : QS α)
    (hst : StateOK ((ModelS.init : ModelS α).run ops) st) (qd qdd : VecN α) (id : Nat)
    (hid : ((ModelS.init : ModelS α).run ops).validId id) (p : V3 α) :
    matList 6 ((ModelS.init : ModelS α).run ops).dofCount (calcPointJacobian6D ((ModelS.init : ModelS α).run ops) w st id p zeroMat true).2
      = Spec.pointJacobian6D (specOfM ops) (stateOf st qd qdd) id p := by
  obtain ⟨M', off, nodeOf, hm, hR, hI, hcap, hord, hs⟩ := constructedMF ops hg
  rw [hs, normM_pointJacobian6D]
  exact C05Cap.calcPointJacobian6D_eq_spec_fixed hm hR hI hcap h2 w hw st hst qd qdd id hid p
example (p : V3 Rat) :=
  calcPointJacobian6D_eq_spec_constructedMF ExM.ops ExM.ops_good Ex.two_ne ExM.w1 ExM.w1_fixed ExM.st
    ExM.st_ok Ex.qd Ex.qdd 4 (Or.inl (by decide +kernel)) p

/-- `CalcPointJacobian`, column form -/
theorem calcPointJacobian_col_eq_spec_constructedMF (ops : List (Op α))
    (hg : goodRunMF (ModelS.init : ModelS α) ops) (h2 : (2 : α) ≠ 0) (w : WS α)
    (hw : WSFixed ((ModelS.init : ModelS α).run ops) w) (st : QS α)
    (hst : StateOK ((ModelS.init : ModelS α).run ops) st) (qd qdd : VecN α) (id : Nat)
    (hid : ((ModelS.init : ModelS α).run ops).validId id) (p : V3 α) (x : Nat)
    (hx : x < ((ModelS.init : ModelS α).run ops).dofCount) :
    (⟨(calcPointJacobian ((ModelS.init : ModelS α).run ops) w st id p zeroMat true).2 0 x,
        (calcPointJacobian ((ModelS.init : ModelS α).run ops) w st id p zeroMat true).2 1 x,
        (calcPointJacobian ((ModelS.init : ModelS α).run ops) w st id p zeroMat true).2 2 x⟩ : V3 α)
      = (Spec.pointJacobian6DCol (specOfM ops) (stateOf st qd qdd) id p x).v := by
  obtain ⟨M', off, nodeOf, hm, hR, hI, hcap, hord, hs⟩ := constructedMF ops hg
  rw [hs, normM_pointJacobian6DCol]
  exact C05Cap.calcPointJacobian_col_eq_spec_fixed hm hR hI hcap h2 w hw st hst qd qdd id hid p x hx
example (p : V3 Rat) (x : Nat) (hx : x < ExM.m.dofCount) :=
  calcPointJacobian_col_eq_spec_constructedMF ExM.ops ExM.ops_good Ex.two_ne ExM.w1 ExM.w1_fixed ExM.st ExM.st_ok Ex.qd Ex.qdd
    2 (Or.inl (by decide +kernel)) p x hx

/-- `CalcPointJacobian`, list form -/
theorem calcPointJacobian_eq_spec_constructedMF (ops : List (Op α))
    (hg : goodRunMF (ModelS.init : ModelS α) ops) (h2 : (2 : α) ≠ 0) (w : WS α)
    (hw : WSFixed ((ModelS.init : ModelS α).run ops) w) (st : QS α)
    (hst : StateOK ((ModelS.init : ModelS α).run ops) st) (qd qdd : VecN α) (id : Nat)
    (hid : ((ModelS.init : ModelS α).run ops).validId id) (p : V3 α) :
    matList 3 ((ModelS.init : ModelS α).run ops).dofCount (calcPointJacobian ((ModelS.init : ModelS α).run ops) w st id p zeroMat true).2
      = Spec.pointJacobian (specOfM ops) (stateOf st qd qdd) id p := by
  obtain ⟨M', off, nodeOf, hm, hR, hI, hcap, hord, hs⟩ := constructedMF ops hg
  rw [hs, normM_pointJacobian]
  exact C05Cap.calcPointJacobian_eq_spec_fixed hm hR hI hcap h2 w hw st hst qd qdd id hid p
example (p : V3 Rat) :=
  calcPointJacobian_eq_spec_constructedMF ExM.ops ExM.ops_good Ex.two_ne ExM.w1 ExM.w1_fixed ExM.st ExM.st_ok Ex.qd Ex.qdd
    (fixedDisc) (Or.inr (by decide +kernel)) p

/-- `CalcBodySpatialJacobian`, column form -/
theorem calcBodySpatialJacobian_col_eq_spec_constructedMF (ops : List (Op α))
    (hg : goodRunMF (ModelS.init : ModelS α) ops) (h2 : (2 : α) ≠ 0) (w : WS α)
    (hw : WSFixed ((ModelS.init : ModelS α).run ops) w) (st : QS α)
    (hst : StateOK ((ModelS.init : ModelS α).run ops) st) (qd qdd : VecN α) (id : Nat)
    (hid : ((ModelS.init : ModelS α).run ops).validId id) (x : Nat)
    (hx : x < ((ModelS.init : ModelS α).run ops).dofCount) :
    colSV (calcBodySpatialJacobian ((ModelS.init : ModelS α).run ops) w st id zeroMat true).2 x
      = Spec.bodySpatialJacobianCol (specOfM ops) (stateOf st qd qdd) id x := by
  obtain ⟨M', off, nodeOf, hm, hR, hI, hcap, hord, hs⟩ := constructedMF ops hg
  rw [hs, normM_bodySpatialJacobianCol]
  exact C05Cap.calcBodySpatialJacobian_col_eq_spec_fixed hm hR hI hcap h2 w hw st hst qd qdd id hid x hx
example (x : Nat) (hx : x < ExM.m.dofCount) :=
  calcBodySpatialJacobian_col_eq_spec_constructedMF ExM.ops ExM.ops_good Ex.two_ne ExM.w1 ExM.w1_fixed ExM.st ExM.st_ok Ex.qd Ex.qdd
    (fixedDisc) (Or.inr (by decide +kernel)) x hx

/-- `CalcBodySpatialJacobian`, list form -/
theorem calcBodySpatialJacobian_eq_spec_constructedMF (ops : List (Op α))
    (hg : goodRunMF (ModelS.init : ModelS α) ops) (h2 : (2 : α) ≠ 0) (w : WS α)
    (hw : WSFixed ((ModelS.init : ModelS α).run ops) w) (st : QS α)
    (hst : StateOK ((ModelS.init : ModelS α).run ops) st) (qd qdd : VecN α) (id : Nat)
    (hid : ((ModelS.init : ModelS α).run ops).validId id) :
    matList 6 ((ModelS.init : ModelS α).run ops).dofCount (calcBodySpatialJacobian ((ModelS.init : ModelS α).run ops) w st id zeroMat true).2
      = Spec.bodySpatialJacobian (specOfM ops) (stateOf st qd qdd) id := by
  obtain ⟨M', off, nodeOf, hm, hR, hI, hcap, hord, hs⟩ := constructedMF ops hg
  rw [hs, normM_bodySpatialJacobian]
  exact C05Cap.calcBodySpatialJacobian_eq_spec_fixed hm hR hI hcap h2 w hw st hst qd qdd id hid
example :=
  calcBodySpatialJacobian_eq_spec_constructedMF ExM.ops ExM.ops_good Ex.two_ne ExM.w1 ExM.w1_fixed ExM.st ExM.st_ok Ex.qd Ex.qdd
    2 (Or.inl (by decide +kernel))

/-- `CalcPointVelocity6D` -/
theorem calcPointVelocity6D_eq_spec_constructedMF (ops : List (Op α))
    (hg : goodRunMF (ModelS.init : ModelS α) ops) (h2 : (2 : α) ≠ 0) (w : WS α)
    (hw : WSFixed ((ModelS.init : ModelS α).run ops) w) (st : QS α)
    (hst : StateOK ((ModelS.init : ModelS α).run ops) st) (qd qdd : VecN α) (id : Nat)
    (hid : ((ModelS.init : ModelS α).run ops).validId id) (p : V3 α) :
    (calcPointVelocity6D ((ModelS.init : ModelS α).run ops) w st qd id p true).2
      = Spec.pointVelocity6D (specOfM ops) (stateOf st qd qdd) id p := by
  obtain ⟨M', off, nodeOf, hm, hR, hI, hcap, hord, hs⟩ := constructedMF ops hg
  rw [hs, normM_pointVelocity6D]
  exact C06Cap.calcPointVelocity6D_eq_spec_fixed hm hR hI hcap h2 w hw st hst qd qdd id hid p
example (p : V3 Rat) :=
  calcPointVelocity6D_eq_spec_constructedMF ExM.ops ExM.ops_good Ex.two_ne ExM.w1 ExM.w1_fixed ExM.st ExM.st_ok Ex.qd Ex.qdd
    (fixedDisc) (Or.inr (by decide +kernel)) p

/-- `CalcPointVelocity` -/
theorem calcPointVelocity_eq_spec_constructedMF (ops : List (Op α))
    (hg : goodRunMF (ModelS.init : ModelS α) ops) (h2 : (2 : α) ≠ 0) (w : WS α)
    (hw : WSFixed ((ModelS.init : ModelS α).run ops) w) (st : QS α)
    (hst : StateOK ((ModelS.init : ModelS α).run ops) st) (qd qdd : VecN α) (id : Nat)
    (hid : ((ModelS.init : ModelS α).run ops).validId id) (p : V3 α) :
    (calcPointVelocity ((ModelS.init : ModelS α).run ops) w st qd id p true).2
      = Spec.pointVelocity (specOfM ops) (stateOf st qd qdd) id p := by
  obtain ⟨M', off, nodeOf, hm, hR, hI, hcap, hord, hs⟩ := constructedMF ops hg
  rw [hs, normM_pointVelocity]
  exact C06Cap.calcPointVelocity_eq_spec_fixed hm hR hI hcap h2 w hw st hst qd qdd id hid p
example (p : V3 Rat) :=
  calcPointVelocity_eq_spec_constructedMF ExM.ops ExM.ops_good Ex.two_ne ExM.w1 ExM.w1_fixed ExM.st ExM.st_ok Ex.qd Ex.qdd
    2 (Or.inl (by decide +kernel)) p

/-- `CalcPointAcceleration6D` -/
theorem calcPointAcceleration6D_eq_spec_constructedMF (ops : List (Op α))
    (hg : goodRunMF (ModelS.init : ModelS α) ops) (h2 : (2 : α) ≠ 0) (w : WS α)
    (hw : WSFixed ((ModelS.init : ModelS α).run ops) w) (st : QS α)
    (hst : StateOK ((ModelS.init : ModelS α).run ops) st) (qd qdd : VecN α) (id : Nat)
    (hid : ((ModelS.init : ModelS α).run ops).validId id) (p : V3 α) :
    (calcPointAcceleration6D ((ModelS.init : ModelS α).run ops) w st qd qdd id p true).2
      = Spec.pointAcceleration6D (specOfM ops) (stateOf st qd qdd) id p := by
  obtain ⟨M', off, nodeOf, hm, hR, hI, hcap, hord, hs⟩ := constructedMF ops hg
  rw [hs, normM_pointAcceleration6D]
  exact C06Cap.calcPointAcceleration6D_eq_spec_fixed hm hR hI hcap h2 w hw st hst qd qdd id hid p
example (p : V3 Rat) :=
  calcPointAcceleration6D_eq_spec_constructedMF Ex6.ops Ex6.ops_good Ex.two_ne Ex6.w1 Ex6.w1_fixed ExM.st
    Ex6.st_ok Ex.qd Ex.qdd 6 (Or.inl (by decide +kernel)) p
example : (calcPointAcceleration6D Ex6.m Ex6.w1 ExM.st Ex.qd Ex.qdd 6 ⟨1, 2, 3⟩ true).2
    = Spec.pointAcceleration6D Ex6.M (stateOf ExM.st Ex.qd Ex.qdd) 6 ⟨1, 2, 3⟩ := by decide +kernel

/-- `CalcPointAcceleration` -/
theorem calcPointAcceleration_eq_spec_constructedMF (ops : List (Op α))
    (hg : goodRunMF (ModelS.init : ModelS α) ops) (h2 : (2 : α) ≠ 0) (w : WS α)
    (hw : WSFixed ((ModelS.init : ModelS α).run ops) w) (st : QS α)
    (hst : StateOK ((ModelS.init : ModelS α).run ops) st) (qd qdd : VecN α) (id : Nat)
    (hid : ((ModelS.init : ModelS α).run ops).validId id) (p : V3 α) :
    (calcPointAcceleration ((ModelS.init : ModelS α).run ops) w st qd qdd id p true).2
      = Spec.pointAcceleration (specOfM ops) (stateOf st qd qdd) id p := by
  obtain ⟨M', off, nodeOf, hm, hR, hI, hcap, hord, hs⟩ := constructedMF ops hg
  rw [hs, normM_pointAcceleration]
  exact C06Cap.calcPointAcceleration_eq_spec_fixed hm hR hI hcap h2 w hw st hst qd qdd id hid p
example (p : V3 Rat) :=
  calcPointAcceleration_eq_spec_constructedMF ExM.ops ExM.ops_good Ex.two_ne ExM.w1 ExM.w1_fixed ExM.st ExM.st_ok Ex.qd Ex.qdd
    (fixedDisc) (Or.inr (by decide +kernel)) p

/-! ### C12: whole-body quantities -/

/-- `CalcCenterOfMass`: mass, centre of mass, its velocity, angular momentum about it -/
theorem calcCenterOfMass_eq_spec_constructedMF (ops : List (Op α))
    (hg : goodRunMF (ModelS.init : ModelS α) ops) (h2 : (2 : α) ≠ 0) (w : WS α)
    (hw : WSFixed ((ModelS.init : ModelS α).run ops) w) (st : QS α)
    (hst : StateOK ((ModelS.init : ModelS α).run ops) st) (qd : VecN α)
    (qdd : Option (VecN α)) (qdd' : VecN α) (hq : qdd = none ∨ qdd = some qdd') (wantAcc : Bool) :
    (calcCenterOfMass ((ModelS.init : ModelS α).run ops) w st qd qdd wantAcc true).2.mass = totalMass (specOfM ops) ∧
    (calcCenterOfMass ((ModelS.init : ModelS α).run ops) w st qd qdd wantAcc true).2.com = com (specOfM ops) (stateOf st qd qdd') ∧
    (calcCenterOfMass ((ModelS.init : ModelS α).run ops) w st qd qdd wantAcc true).2.comVel
      = comVelocity (specOfM ops) (stateOf st qd qdd') ∧
    (calcCenterOfMass ((ModelS.init : ModelS α).run ops) w st qd qdd wantAcc true).2.angMom
      = (angularMomentum (specOfM ops) (stateOf st qd qdd')).1 := by
  obtain ⟨M', off, nodeOf, hm, hR, hI, hcap, hord, hs⟩ := constructedMF ops hg
  rw [hs, normM_totalMass, normM_com, normM_comVelocity, normM_angularMomentum]
  exact C12Cap.calcCenterOfMass_eq_spec_fixed hm hR h2 w hw st hst qd qdd qdd' hq wantAcc
example := calcCenterOfMass_eq_spec_constructedMF ExM.ops ExM.ops_good Ex.two_ne ExM.w1 ExM.w1_fixed
  ExM.st ExM.st_ok Ex.qd none Ex.qdd (Or.inl rfl) false

/-- … acceleration of the centre of mass, rate of the angular momentum -/
theorem calcCenterOfMass_acc_eq_spec_constructedMF (ops : List (Op α))
    (hg : goodRunMF (ModelS.init : ModelS α) ops) (h2 : (2 : α) ≠ 0) (w : WS α)
    (hw : WSFixed ((ModelS.init : ModelS α).run ops) w) (st : QS α)
    (hst : StateOK ((ModelS.init : ModelS α).run ops) st) (qd qdd : VecN α) :
    (calcCenterOfMass ((ModelS.init : ModelS α).run ops) w st qd (some qdd) true true).2.comAcc
      = comAcceleration (specOfM ops) (stateOf st qd qdd) ∧
    (calcCenterOfMass ((ModelS.init : ModelS α).run ops) w st qd (some qdd) true true).2.angMomDot
      = (angularMomentum (specOfM ops) (stateOf st qd qdd)).2 := by
  obtain ⟨M', off, nodeOf, hm, hR, hI, hcap, hord, hs⟩ := constructedMF ops hg
  rw [hs, normM_comAcceleration, normM_angularMomentum]
  exact C12Cap.calcCenterOfMass_acc_eq_spec_fixed hm hR h2 w hw st hst qd qdd
example := calcCenterOfMass_acc_eq_spec_constructedMF ExM.ops ExM.ops_good Ex.two_ne ExM.w1 ExM.w1_fixed ExM.st ExM.st_ok Ex.qd Ex.qdd

/-- `CalcPotentialEnergy` -/
theorem calcPotentialEnergy_eq_spec_constructedMF (ops : List (Op α))
    (hg : goodRunMF (ModelS.init : ModelS α) ops) (h2 : (2 : α) ≠ 0) (w : WS α)
    (hw : WSFixed ((ModelS.init : ModelS α).run ops) w) (st : QS α)
    (hst : StateOK ((ModelS.init : ModelS α).run ops) st) (qd qdd : VecN α) :
    (calcPotentialEnergy ((ModelS.init : ModelS α).run ops) w st true).2 = potentialEnergy (specOfM ops) (stateOf st qd qdd) := by
  obtain ⟨M', off, nodeOf, hm, hR, hI, hcap, hord, hs⟩ := constructedMF ops hg
  rw [hs, normM_potentialEnergy]
  exact C12Cap.calcPotentialEnergy_eq_spec_fixed hm hR h2 w hw st hst qd qdd
example : (calcPotentialEnergy ExM.m ExM.w1 ExM.st true).2
    = potentialEnergy ExM.M (stateOf ExM.st Ex.qd Ex.qdd) := by decide +kernel
example := calcPotentialEnergy_eq_spec_constructedMF ExM.ops ExM.ops_good Ex.two_ne ExM.w1 ExM.w1_fixed ExM.st ExM.st_ok Ex.qd Ex.qdd

/-- `CalcZeroMomentPoint` -/
theorem calcZeroMomentPoint_eq_spec_constructedMF (ops : List (Op α))
    (hg : goodRunMF (ModelS.init : ModelS α) ops) (h2 : (2 : α) ≠ 0) (w : WS α)
    (hw : WSFixed ((ModelS.init : ModelS α).run ops) w) (st : QS α)
    (hst : StateOK ((ModelS.init : ModelS α).run ops) st) (qd qdd : VecN α)
    (normal point : V3 α) (hM : totalMass (specOfM ops) ≠ 0) :
    (calcZeroMomentPoint ((ModelS.init : ModelS α).run ops) w st qd qdd normal point true).2
      = zmpSpec (specOfM ops) (stateOf st qd qdd) normal point := by
  obtain ⟨M', off, nodeOf, hm, hR, hI, hcap, hord, hs⟩ := constructedMF ops hg
  rw [hs, normM_totalMass] at hM
  rw [hs, normM_zmpSpec]
  exact C12Cap.calcZeroMomentPoint_eq_spec_fixed hm hR h2 w hw st hst qd qdd normal point hM
example := calcZeroMomentPoint_eq_spec_constructedMF ExM.ops ExM.ops_good Ex.two_ne ExM.w1 ExM.w1_fixed
  ExM.st ExM.st_ok Ex.qd Ex.qdd ⟨0, 0, 1⟩ ⟨0, 0, -1⟩ (by decide +kernel)

/-! ### models without fixed bodies: `goodRunM` (no bound on the number of bodies), `Refines` / `RefinesW` -/

/-- `goodRun ⊆ goodRunM`, with the same specification model -/
theorem goodRunM_of_goodRun (ops : List (Op α)) (m : ModelS α) (hg : goodRun m ops) :
    goodRunM m ops := LCapMulti.goodRunM_of_goodRun ops m hg
theorem specOfM_eq_specOf_goodRun (ops : List (Op α)) (hg : goodRun (ModelS.init : ModelS α) ops) :
    specOfM ops = specOf ops := LCapMulti.specOfM_eq_specOf_goodRun ops hg
example := goodRunM_of_goodRun Ex.ops _ Ex.ops_good

/-- **Stage E for the extended class** (`refines_by_construction` with emulated multi-DoF joints):
    `ModelOK`, the syntactic relation `Refines` for a model whose normal form is the specification model,
    and the weak relation `RefinesW` for the specification model itself -/
theorem refinesW_by_construction (ops : List (Op α))
    (hg : goodRunM (ModelS.init : ModelS α) ops) :
    ModelOK ((ModelS.init : ModelS α).run ops) ∧
    (∃ M' : SModel α, Refines ((ModelS.init : ModelS α).run ops) M' ∧ specOfM ops = normM M') ∧
    RefinesW ((ModelS.init : ModelS α).run ops) (specOfM ops) :=
  have h := LCapMulti.refinesW_by_construction ops hg
  ⟨h.1, ⟨_, h.2.1, h.2.2.1⟩, h.2.2.2⟩
example := refinesW_by_construction Ex6.ops Ex6.ops_goodM

/-- the virtual bodies (massless links) carry the zero inertia; the update order enumerates the bodies -/
theorem virtZero_by_constructionM (ops : List (Op α))
    (hg : goodRunM (ModelS.init : ModelS α) ops) : VirtZero ((ModelS.init : ModelS α).run ops) :=
  LCapMulti.virtZero_by_constructionM ops hg
theorem orderOK_by_constructionM (ops : List (Op α))
    (hg : goodRunM (ModelS.init : ModelS α) ops) : OrderOK ((ModelS.init : ModelS α).run ops) :=
  LCapMulti.orderOK_by_constructionM ops hg
example := virtZero_by_constructionM Ex6.ops Ex6.ops_goodM
example := orderOK_by_constructionM Ex6.ops Ex6.ops_goodM

/-- **end to end without fixed bodies**: `InverseDynamics` -/
theorem inverseDynamics_eq_newtonEuler_constructedM (ops : List (Op α))
    (hg : goodRunM (ModelS.init : ModelS α) ops) (h2 : (2 : α) ≠ 0) (w : WS α)
    (hw : WSFixed ((ModelS.init : ModelS α).run ops) w) (st : QS α)
    (hst : StateOK ((ModelS.init : ModelS α).run ops) st) (qd qdd tau : VecN α)
    (fext : Option (Nat → SV α)) (x : Nat) (hx : x < ((ModelS.init : ModelS α).run ops).dofCount) :
    (inverseDynamics ((ModelS.init : ModelS α).run ops) w st qd qdd tau fext).2 x
      = (newtonEulerTau (specOfM ops) (stateOf st qd qdd) (fextSpec fext)).getD x 0 := by
  obtain ⟨hm, hR, hs, _⟩ := LCapMulti.refinesW_by_construction ops hg
  rw [hs, normM_newtonEulerTau]
  exact id_eq_spec hm hR h2 w hw st hst qd qdd tau fext x hx
example (x : Nat) (hx : x < Ex6.m.dofCount) :=
  inverseDynamics_eq_newtonEuler_constructedM Ex6.ops Ex6.ops_goodM Ex.two_ne Ex6.w1 Ex6.w1_fixed
    ExM.st Ex6.st_ok Ex.qd Ex.qdd Ex.tau0 (some Ex.fe) x hx

theorem forwardDynamics_solves_newtonEuler_constructedM (ops : List (Op α))
    (hg : goodRunM (ModelS.init : ModelS α) ops) (h2 : (2 : α) ≠ 0) (w : WS α)
    (hw : WSFixed ((ModelS.init : ModelS α).run ops) w) (st : QS α)
    (hst : StateOK ((ModelS.init : ModelS α).run ops) st) (qd tau q0 : VecN α)
    (fext : Option (Nat → SV α))
    (har : ∀ i, 1 ≤ i → i < ((ModelS.init : ModelS α).run ops).nBodies → ((ModelS.init : ModelS α).run ops).arity i = .one ∨ ((ModelS.init : ModelS α).run ops).arity i = .three)
    (hpiv : ∀ i, 1 ≤ i → i < ((ModelS.init : ModelS α).run ops).nBodies → pivotOk ((ModelS.init : ModelS α).run ops) (forwardDynamics ((ModelS.init : ModelS α).run ops) w st qd tau q0 fext).1 i)
    (x : Nat) (hx : x < ((ModelS.init : ModelS α).run ops).dofCount) :
    (newtonEulerTau (specOfM ops) (stateOf st qd (forwardDynamics ((ModelS.init : ModelS α).run ops) w st qd tau q0 fext).2)
      (fextSpec fext)).getD x 0 = tau x := by
  obtain ⟨hm, hR, hs, _⟩ := LCapMulti.refinesW_by_construction ops hg
  have hv := LCapMulti.virtZero_by_constructionM ops hg
  rw [hs, normM_newtonEulerTau]
  exact C02Cap.forwardDynamics_solves_newtonEuler hm hR hv h2 w hw st hst qd tau q0 fext har hpiv x hx
example (x : Nat) (hx : x < Ex6.m.dofCount) :=
  forwardDynamics_solves_newtonEuler_constructedM Ex6.ops Ex6.ops_goodM Ex.two_ne Ex6.w1 Ex6.w1_fixed ExM.st Ex6.st_ok Ex.qd exTau Ex.qdd
    (some Ex.fe) Ex6.m_ar Ex6.m_piv x hx
example : (newtonEulerTau Ex6.M (stateOf ExM.st Ex.qd
      (forwardDynamics Ex6.m Ex6.w1 ExM.st Ex.qd exTau Ex.qdd (some Ex.fe)).2)
      (fextSpec (some Ex.fe))).getD 4 0 = exTau 4 := by decide +kernel

theorem calcMInvTimesTau_solves_constructedM (ops : List (Op α))
    (hg : goodRunM (ModelS.init : ModelS α) ops) (h2 : (2 : α) ≠ 0) (w : WS α)
    (hw : WSFixed ((ModelS.init : ModelS α).run ops) w) (st : QS α)
    (hst : StateOK ((ModelS.init : ModelS α).run ops) st) (qd qdd tau q0 : VecN α)
    (har : ∀ i, 1 ≤ i → i < ((ModelS.init : ModelS α).run ops).nBodies → ((ModelS.init : ModelS α).run ops).arity i = .one ∨ ((ModelS.init : ModelS α).run ops).arity i = .three)
    (hpiv : ∀ i, 1 ≤ i → i < ((ModelS.init : ModelS α).run ops).nBodies → pivotOk ((ModelS.init : ModelS α).run ops) (calcMInvTimesTau ((ModelS.init : ModelS α).run ops) w st tau q0 true).1 i)
    (r : Nat) (hr : r < ((ModelS.init : ModelS α).run ops).dofCount) :
    sumTo ((ModelS.init : ModelS α).run ops).dofCount (fun c =>
      (inertiaMatrix (specOfM ops) (stateOf st qd qdd)).getD (r * ((ModelS.init : ModelS α).run ops).dofCount + c) 0
        * (calcMInvTimesTau ((ModelS.init : ModelS α).run ops) w st tau q0 true).2 c) = tau r := by
  obtain ⟨hm, hR, hs, _⟩ := LCapMulti.refinesW_by_construction ops hg
  have hv := LCapMulti.virtZero_by_constructionM ops hg
  have hord := LCapMulti.orderOK_by_constructionM ops hg
  rw [hs, normM_inertiaMatrix]
  exact C02Cap.calcMInvTimesTau_solves hm hR hv hord h2 w hw st hst qd qdd tau q0 har hpiv r hr

theorem nonlinearEffects_eq_newtonEuler_constructedM (ops : List (Op α))
    (hg : goodRunM (ModelS.init : ModelS α) ops) (h2 : (2 : α) ≠ 0) (w : WS α)
    (hw : WSFixed ((ModelS.init : ModelS α).run ops) w) (st : QS α)
    (hst : StateOK ((ModelS.init : ModelS α).run ops) st) (qd tau : VecN α)
    (fext : Option (Nat → SV α)) (x : Nat) (hx : x < ((ModelS.init : ModelS α).run ops).dofCount) :
    (nonlinearEffects ((ModelS.init : ModelS α).run ops) w st qd tau fext).2 x
      = (newtonEulerTau (specOfM ops) (stateOf st qd (fun _ => 0)) (fextSpec fext)).getD x 0 := by
  obtain ⟨hm, hR, hs, _⟩ := LCapMulti.refinesW_by_construction ops hg
  have hord := LCapMulti.orderOK_by_constructionM ops hg
  rw [hs, normM_newtonEulerTau]
  exact C03Cap.nonlinearEffects_eq_newtonEuler hm hR hord h2 w hw st hst qd tau fext x hx
example (x : Nat) (hx : x < Ex6.m.dofCount) :=
  nonlinearEffects_eq_newtonEuler_constructedM Ex6.ops Ex6.ops_goodM Ex.two_ne Ex6.w1 Ex6.w1_fixed ExM.st Ex6.st_ok Ex.qd Ex.tau0 (some Ex.fe) x hx

theorem crba_eq_inertiaMatrix_constructedM (ops : List (Op α))
    (hg : goodRunM (ModelS.init : ModelS α) ops) (h2 : (2 : α) ≠ 0) (w : WS α)
    (hw : WSFixed ((ModelS.init : ModelS α).run ops) w) (st : QS α)
    (hst : StateOK ((ModelS.init : ModelS α).run ops) st) (qd qdd : VecN α) (r c : Nat)
    (hr : r < ((ModelS.init : ModelS α).run ops).dofCount) (hc : c < ((ModelS.init : ModelS α).run ops).dofCount) :
    (crba ((ModelS.init : ModelS α).run ops) w st (fun _ _ => 0) true).2 r c
      = (inertiaMatrix (specOfM ops) (stateOf st qd qdd)).getD (r * ((ModelS.init : ModelS α).run ops).dofCount + c) 0 := by
  obtain ⟨hm, hR, hs, _⟩ := LCapMulti.refinesW_by_construction ops hg
  have hv := LCapMulti.virtZero_by_constructionM ops hg
  rw [hs, normM_inertiaMatrix]
  exact C03Cap.crba_eq_inertiaMatrix hm hR hv h2 w hw st hst qd qdd r c hr hc
example : (crba Ex6.m Ex6.w1 ExM.st (fun _ _ => 0) true).2 1 4
    = (inertiaMatrix Ex6.M (stateOf ExM.st Ex.qd Ex.qdd)).getD (1 * 7 + 4) 0 := by decide +kernel
example (r c : Nat) (hr : r < Ex6.m.dofCount) (hc : c < Ex6.m.dofCount) :=
  crba_eq_inertiaMatrix_constructedM Ex6.ops Ex6.ops_goodM Ex.two_ne Ex6.w1 Ex6.w1_fixed ExM.st Ex6.st_ok Ex.qd Ex.qdd r c hr hc

theorem calcKineticEnergy_eq_spec_constructedM (ops : List (Op α))
    (hg : goodRunM (ModelS.init : ModelS α) ops) (h2 : (2 : α) ≠ 0) (w : WS α)
    (hw : WSFixed ((ModelS.init : ModelS α).run ops) w) (st : QS α)
    (hst : StateOK ((ModelS.init : ModelS α).run ops) st) (qd qdd : VecN α) :
    (calcKineticEnergy ((ModelS.init : ModelS α).run ops) w st qd true).2 = kineticEnergy (specOfM ops) (stateOf st qd qdd) := by
  obtain ⟨hm, hR, hs, _⟩ := LCapMulti.refinesW_by_construction ops hg
  have hv := LCapMulti.virtZero_by_constructionM ops hg
  rw [hs, normM_kineticEnergy]
  exact C03Cap.calcKineticEnergy_eq_spec hm hR hv h2 w hw st hst qd qdd
example := calcKineticEnergy_eq_spec_constructedM Ex6.ops Ex6.ops_goodM Ex.two_ne Ex6.w1 Ex6.w1_fixed
  ExM.st Ex6.st_ok Ex.qd Ex.qdd

theorem calcBodyToBaseCoordinates_eq_spec_constructedM (ops : List (Op α))
    (hg : goodRunM (ModelS.init : ModelS α) ops) (w : WS α)
    (hw : WSFixed ((ModelS.init : ModelS α).run ops) w) (st : QS α) (qd qdd : VecN α) (id : Nat)
    (hid : id < ((ModelS.init : ModelS α).run ops).nBodies) (hfd : id < fixedDisc) (p : V3 α) :
    (calcBodyToBaseCoordinates ((ModelS.init : ModelS α).run ops) w st id p true).2
      = Spec.bodyToBase (specOfM ops) (stateOf st qd qdd) id p := by
  obtain ⟨hm, hR, hs, _⟩ := LCapMulti.refinesW_by_construction ops hg
  rw [hs, normM_bodyToBase]
  exact C04Cap.calcBodyToBaseCoordinates_eq_spec hm hR w hw st qd qdd id hid hfd p
example (p : V3 Rat) :=
  calcBodyToBaseCoordinates_eq_spec_constructedM Ex6.ops Ex6.ops_goodM Ex6.w1 Ex6.w1_fixed ExM.st Ex.qd Ex.qdd 5 (by decide +kernel) (by decide) p

theorem calcBaseToBodyCoordinates_eq_spec_constructedM (ops : List (Op α))
    (hg : goodRunM (ModelS.init : ModelS α) ops) (w : WS α)
    (hw : WSFixed ((ModelS.init : ModelS α).run ops) w) (st : QS α) (qd qdd : VecN α) (id : Nat)
    (hid : id < ((ModelS.init : ModelS α).run ops).nBodies) (hfd : id < fixedDisc) (p : V3 α) :
    (calcBaseToBodyCoordinates ((ModelS.init : ModelS α).run ops) w st id p true).2
      = Spec.baseToBody (specOfM ops) (stateOf st qd qdd) id p := by
  obtain ⟨hm, hR, hs, _⟩ := LCapMulti.refinesW_by_construction ops hg
  rw [hs, normM_baseToBody]
  exact C04Cap.calcBaseToBodyCoordinates_eq_spec hm hR w hw st qd qdd id hid hfd p
example (p : V3 Rat) :=
  calcBaseToBodyCoordinates_eq_spec_constructedM Ex6.ops Ex6.ops_goodM Ex6.w1 Ex6.w1_fixed ExM.st Ex.qd Ex.qdd 5 (by decide +kernel) (by decide) p

theorem calcBodyWorldOrientation_eq_spec_constructedM (ops : List (Op α))
    (hg : goodRunM (ModelS.init : ModelS α) ops) (w : WS α)
    (hw : WSFixed ((ModelS.init : ModelS α).run ops) w) (st : QS α) (qd qdd : VecN α) (id : Nat)
    (hid : id < ((ModelS.init : ModelS α).run ops).nBodies) (hfd : id < fixedDisc) :
    (calcBodyWorldOrientation ((ModelS.init : ModelS α).run ops) w st id true).2
      = Spec.orientation (specOfM ops) (stateOf st qd qdd) id := by
  obtain ⟨hm, hR, hs, _⟩ := LCapMulti.refinesW_by_construction ops hg
  rw [hs, normM_orientation]
  exact C04Cap.calcBodyWorldOrientation_eq_spec hm hR w hw st qd qdd id hid hfd
example :=
  calcBodyWorldOrientation_eq_spec_constructedM Ex6.ops Ex6.ops_goodM Ex6.w1 Ex6.w1_fixed ExM.st Ex.qd Ex.qdd 5 (by decide +kernel) (by decide)

theorem calcPointJacobian6D_eq_spec_constructedM (ops : List (Op α))
    (hg : goodRunM (ModelS.init : ModelS α) ops) (h2 : (2 : α) ≠ 0) (w : WS α)
    (hw : WSFixed ((ModelS.init : ModelS α).run ops) w) (st : QS α)
    (hst : StateOK ((ModelS.init : ModelS α).run ops) st) (qd qdd : VecN α) (id : Nat)
    (hid : id < ((ModelS.init : ModelS α).run ops).nBodies) (hfd : id < fixedDisc) (p : V3 α) :
    matList 6 ((ModelS.init : ModelS α).run ops).dofCount (calcPointJacobian6D ((ModelS.init : ModelS α).run ops) w st id p zeroMat true).2
      = Spec.pointJacobian6D (specOfM ops) (stateOf st qd qdd) id p := by
  obtain ⟨hm, hR, hs, _⟩ := LCapMulti.refinesW_by_construction ops hg
  rw [hs, normM_pointJacobian6D]
  exact C05Cap.calcPointJacobian6D_eq_spec hm hR h2 w hw st hst qd qdd id hid hfd p
example (p : V3 Rat) :=
  calcPointJacobian6D_eq_spec_constructedM Ex6.ops Ex6.ops_goodM Ex.two_ne Ex6.w1 Ex6.w1_fixed ExM.st Ex6.st_ok Ex.qd Ex.qdd 5 (by decide +kernel) (by decide) p

theorem calcPointJacobian_eq_spec_constructedM (ops : List (Op α))
    (hg : goodRunM (ModelS.init : ModelS α) ops) (h2 : (2 : α) ≠ 0) (w : WS α)
    (hw : WSFixed ((ModelS.init : ModelS α).run ops) w) (st : QS α)
    (hst : StateOK ((ModelS.init : ModelS α).run ops) st) (qd qdd : VecN α) (id : Nat)
    (hid : id < ((ModelS.init : ModelS α).run ops).nBodies) (hfd : id < fixedDisc) (p : V3 α) :
    matList 3 ((ModelS.init : ModelS α).run ops).dofCount (calcPointJacobian ((ModelS.init : ModelS α).run ops) w st id p zeroMat true).2
      = Spec.pointJacobian (specOfM ops) (stateOf st qd qdd) id p := by
  obtain ⟨hm, hR, hs, _⟩ := LCapMulti.refinesW_by_construction ops hg
  rw [hs, normM_pointJacobian]
  exact C05Cap.calcPointJacobian_eq_spec hm hR h2 w hw st hst qd qdd id hid hfd p
example (p : V3 Rat) :=
  calcPointJacobian_eq_spec_constructedM Ex6.ops Ex6.ops_goodM Ex.two_ne Ex6.w1 Ex6.w1_fixed ExM.st Ex6.st_ok Ex.qd Ex.qdd 5 (by decide +kernel) (by decide) p

theorem calcBodySpatialJacobian_eq_spec_constructedM (ops : List (Op α))
    (hg : goodRunM (ModelS.init : ModelS α) ops) (h2 : (2 : α) ≠ 0) (w : WS α)
    (hw : WSFixed ((ModelS.init : ModelS α).run ops) w) (st : QS α)
    (hst : StateOK ((ModelS.init : ModelS α).run ops) st) (qd qdd : VecN α) (id : Nat)
    (hid : id < ((ModelS.init : ModelS α).run ops).nBodies) (hfd : id < fixedDisc) :
    matList 6 ((ModelS.init : ModelS α).run ops).dofCount (calcBodySpatialJacobian ((ModelS.init : ModelS α).run ops) w st id zeroMat true).2
      = Spec.bodySpatialJacobian (specOfM ops) (stateOf st qd qdd) id := by
  obtain ⟨hm, hR, hs, _⟩ := LCapMulti.refinesW_by_construction ops hg
  rw [hs, normM_bodySpatialJacobian]
  exact C05Cap.calcBodySpatialJacobian_eq_spec hm hR h2 w hw st hst qd qdd id hid hfd
example :=
  calcBodySpatialJacobian_eq_spec_constructedM Ex6.ops Ex6.ops_goodM Ex.two_ne Ex6.w1 Ex6.w1_fixed ExM.st Ex6.st_ok Ex.qd Ex.qdd 5 (by decide +kernel) (by decide)

theorem calcPointVelocity6D_eq_spec_constructedM (ops : List (Op α))
    (hg : goodRunM (ModelS.init : ModelS α) ops) (h2 : (2 : α) ≠ 0) (w : WS α)
    (hw : WSFixed ((ModelS.init : ModelS α).run ops) w) (st : QS α)
    (hst : StateOK ((ModelS.init : ModelS α).run ops) st) (qd qdd : VecN α) (id : Nat)
    (hid : id < ((ModelS.init : ModelS α).run ops).nBodies) (hfd : id < fixedDisc) (p : V3 α) :
    (calcPointVelocity6D ((ModelS.init : ModelS α).run ops) w st qd id p true).2
      = Spec.pointVelocity6D (specOfM ops) (stateOf st qd qdd) id p := by
  obtain ⟨hm, hR, hs, _⟩ := LCapMulti.refinesW_by_construction ops hg
  rw [hs, normM_pointVelocity6D]
  exact C06Cap.calcPointVelocity6D_eq_spec hm hR h2 w hw st hst qd qdd id hid hfd p
example (p : V3 Rat) :=
  calcPointVelocity6D_eq_spec_constructedM Ex6.ops Ex6.ops_goodM Ex.two_ne Ex6.w1 Ex6.w1_fixed ExM.st Ex6.st_ok Ex.qd Ex.qdd 5 (by decide +kernel) (by decide) p

theorem calcPointVelocity_eq_spec_constructedM (ops : List (Op α))
    (hg : goodRunM (ModelS.init : ModelS α) ops) (h2 : (2 : α) ≠ 0) (w : WS α)
    (hw : WSFixed ((ModelS.init : ModelS α).run ops) w) (st : QS α)
    (hst : StateOK ((ModelS.init : ModelS α).run ops) st) (qd qdd : VecN α) (id : Nat)
    (hid : id < ((ModelS.init : ModelS α).run ops).nBodies) (hfd : id < fixedDisc) (p : V3 α) :
    (calcPointVelocity ((ModelS.init : ModelS α).run ops) w st qd id p true).2
      = Spec.pointVelocity (specOfM ops) (stateOf st qd qdd) id p := by
  obtain ⟨hm, hR, hs, _⟩ := LCapMulti.refinesW_by_construction ops hg
  rw [hs, normM_pointVelocity]
  exact C06Cap.calcPointVelocity_eq_spec hm hR h2 w hw st hst qd qdd id hid hfd p
example (p : V3 Rat) :=
  calcPointVelocity_eq_spec_constructedM Ex6.ops Ex6.ops_goodM Ex.two_ne Ex6.w1 Ex6.w1_fixed ExM.st Ex6.st_ok Ex.qd Ex.qdd 5 (by decide +kernel) (by decide) p

theorem calcPointAcceleration6D_eq_spec_constructedM (ops : List (Op α))
    (hg : goodRunM (ModelS.init : ModelS α) ops) (h2 : (2 : α) ≠ 0) (w : WS α)
    (hw : WSFixed ((ModelS.init : ModelS α).run ops) w) (st : QS α)
    (hst : StateOK ((ModelS.init : ModelS α).run ops) st) (qd qdd : VecN α) (id : Nat)
    (hid : id < ((ModelS.init : ModelS α).run ops).nBodies) (hfd : id < fixedDisc) (p : V3 α) :
    (calcPointAcceleration6D ((ModelS.init : ModelS α).run ops) w st qd qdd id p true).2
      = Spec.pointAcceleration6D (specOfM ops) (stateOf st qd qdd) id p := by
  obtain ⟨hm, hR, hs, _⟩ := LCapMulti.refinesW_by_construction ops hg
  rw [hs, normM_pointAcceleration6D]
  exact C06Cap.calcPointAcceleration6D_eq_spec hm hR h2 w hw st hst qd qdd id hid hfd p
example (p : V3 Rat) :=
  calcPointAcceleration6D_eq_spec_constructedM Ex6.ops Ex6.ops_goodM Ex.two_ne Ex6.w1 Ex6.w1_fixed ExM.st Ex6.st_ok Ex.qd Ex.qdd 5 (by decide +kernel) (by decide) p

theorem calcPointAcceleration_eq_spec_constructedM (ops : List (Op α))
    (hg : goodRunM (ModelS.init : ModelS α) ops) (h2 : (2 : α) ≠ 0) (w : WS α)
    (hw : WSFixed ((ModelS.init : ModelS α).run ops) w) (st : QS α)
    (hst : StateOK ((ModelS.init : ModelS α).run ops) st) (qd qdd : VecN α) (id : Nat)
    (hid : id < ((ModelS.init : ModelS α).run ops).nBodies) (hfd : id < fixedDisc) (p : V3 α) :
    (calcPointAcceleration ((ModelS.init : ModelS α).run ops) w st qd qdd id p true).2
      = Spec.pointAcceleration (specOfM ops) (stateOf st qd qdd) id p := by
  obtain ⟨hm, hR, hs, _⟩ := LCapMulti.refinesW_by_construction ops hg
  rw [hs, normM_pointAcceleration]
  exact C06Cap.calcPointAcceleration_eq_spec hm hR h2 w hw st hst qd qdd id hid hfd p
example (p : V3 Rat) :=
  calcPointAcceleration_eq_spec_constructedM Ex6.ops Ex6.ops_goodM Ex.two_ne Ex6.w1 Ex6.w1_fixed ExM.st Ex6.st_ok Ex.qd Ex.qdd 5 (by decide +kernel) (by decide) p

theorem calcCenterOfMass_eq_spec_constructedM (ops : List (Op α))
    (hg : goodRunM (ModelS.init : ModelS α) ops) (h2 : (2 : α) ≠ 0) (w : WS α)
    (hw : WSFixed ((ModelS.init : ModelS α).run ops) w) (st : QS α)
    (hst : StateOK ((ModelS.init : ModelS α).run ops) st) (qd : VecN α)
    (qdd : Option (VecN α)) (qdd' : VecN α) (hq : qdd = none ∨ qdd = some qdd') (wantAcc : Bool) :
    (calcCenterOfMass ((ModelS.init : ModelS α).run ops) w st qd qdd wantAcc true).2.mass = totalMass (specOfM ops) ∧
    (calcCenterOfMass ((ModelS.init : ModelS α).run ops) w st qd qdd wantAcc true).2.com = com (specOfM ops) (stateOf st qd qdd') ∧
    (calcCenterOfMass ((ModelS.init : ModelS α).run ops) w st qd qdd wantAcc true).2.comVel
      = comVelocity (specOfM ops) (stateOf st qd qdd') ∧
    (calcCenterOfMass ((ModelS.init : ModelS α).run ops) w st qd qdd wantAcc true).2.angMom
      = (angularMomentum (specOfM ops) (stateOf st qd qdd')).1 := by
  obtain ⟨hm, hR, hs, _⟩ := LCapMulti.refinesW_by_construction ops hg
  have hv := LCapMulti.virtZero_by_constructionM ops hg
  rw [hs, normM_totalMass, normM_com, normM_comVelocity, normM_angularMomentum]
  exact C12Cap.calcCenterOfMass_eq_spec hm hR hv h2 w hw st hst qd qdd qdd' hq wantAcc
example := calcCenterOfMass_eq_spec_constructedM Ex6.ops Ex6.ops_goodM Ex.two_ne Ex6.w1 Ex6.w1_fixed ExM.st Ex6.st_ok Ex.qd (some Ex.qdd) Ex.qdd (Or.inr rfl) true

theorem calcCenterOfMass_acc_eq_spec_constructedM (ops : List (Op α))
    (hg : goodRunM (ModelS.init : ModelS α) ops) (h2 : (2 : α) ≠ 0) (w : WS α)
    (hw : WSFixed ((ModelS.init : ModelS α).run ops) w) (st : QS α)
    (hst : StateOK ((ModelS.init : ModelS α).run ops) st) (qd qdd : VecN α) :
    (calcCenterOfMass ((ModelS.init : ModelS α).run ops) w st qd (some qdd) true true).2.comAcc
      = comAcceleration (specOfM ops) (stateOf st qd qdd) ∧
    (calcCenterOfMass ((ModelS.init : ModelS α).run ops) w st qd (some qdd) true true).2.angMomDot
      = (angularMomentum (specOfM ops) (stateOf st qd qdd)).2 := by
  obtain ⟨hm, hR, hs, _⟩ := LCapMulti.refinesW_by_construction ops hg
  have hv := LCapMulti.virtZero_by_constructionM ops hg
  rw [hs, normM_comAcceleration, normM_angularMomentum]
  exact C12Cap.calcCenterOfMass_acc_eq_spec hm hR hv h2 w hw st hst qd qdd
example := calcCenterOfMass_acc_eq_spec_constructedM Ex6.ops Ex6.ops_goodM Ex.two_ne Ex6.w1 Ex6.w1_fixed ExM.st Ex6.st_ok Ex.qd Ex.qdd

theorem calcPotentialEnergy_eq_spec_constructedM (ops : List (Op α))
    (hg : goodRunM (ModelS.init : ModelS α) ops) (h2 : (2 : α) ≠ 0) (w : WS α)
    (hw : WSFixed ((ModelS.init : ModelS α).run ops) w) (st : QS α)
    (hst : StateOK ((ModelS.init : ModelS α).run ops) st) (qd qdd : VecN α) :
    (calcPotentialEnergy ((ModelS.init : ModelS α).run ops) w st true).2 = potentialEnergy (specOfM ops) (stateOf st qd qdd) := by
  obtain ⟨hm, hR, hs, _⟩ := LCapMulti.refinesW_by_construction ops hg
  have hv := LCapMulti.virtZero_by_constructionM ops hg
  rw [hs, normM_potentialEnergy]
  exact C12Cap.calcPotentialEnergy_eq_spec hm hR hv h2 w hw st hst qd qdd
example := calcPotentialEnergy_eq_spec_constructedM Ex6.ops Ex6.ops_goodM Ex.two_ne Ex6.w1 Ex6.w1_fixed
  ExM.st Ex6.st_ok Ex.qd Ex.qdd

end Rbdl.CapMulti
