import RbdlProofs.Lemmas.Model15
/-
  C15 — `Body::Join`, `Body::Separate` and the inertial-parameter setters.

  "Joining two bodies gives the mass, centre of mass and centroidal inertia of their rigid union for
  every relative pose, and separating the same body again restores the original parameters, including
  when the remainder is massless.  Changing parameters through the setters yields the same model as
  building it from scratch with the new parameters."

  `α` is any field with decidable equality; "symmetric" is `I.transpose = I`.  Every theorem is
  followed by an `example` instantiating it on a concrete instance over `Rat` (`Rbdl.C15.Ex`:
  the 3-4-5 rotation + translation of C16, non-diagonal inertias, off-origin centres of mass).
  Hypotheses that turned out to be unnecessary are dropped (see the remarks at each theorem).
-/
namespace Rbdl.C15
open Lean.Grind Rbdl
variable {α : Type} [Field α] [DecidableEq α]

/-! ### 1. spatial inertias add -/

/-- 1 : all 10 fields of the spatial inertia of the joined body = `I_a + Xᵀ I_b X`.
    Holds in both branches (also the early return for a massless `b` with zero inertia).
    Neither symmetry of `b.inertia` nor `a.mass + b.mass ≠ 0` is needed: both sides read only the
    lower triangle, and success of `Join` already excludes a zero total mass. -/
theorem join_toRBI {a b u : Body α} {X : XT α} (hX : X.E.IsRot) (h : a.join X b = some u) :
    u.toRBI = a.toRBI + X.applyTransposeRBI b.toRBI := by
  rw [Body.applyTransposeRBI_toRBI X hX]
  by_cases hb : b.mass = 0 ∧ b.inertia = M3.zero
  · rw [Body.join_null hb] at h
    cases h
    rw [Body.transformInertiaToBodyFrame_eq, hb.1, hb.2]
    alg_ext
  · by_cases hM : a.mass + b.mass = 0
    · rw [Body.join_zeroMass hb hM] at h; cases h
    · rw [Body.join_eq hb hM] at h
      cases h
      have hC := Body.joinCom_spec (X := X) hM
      rw [Body.toRBI_eq, Body.toRBI_eq]
      simp only [Body.originInertia]
      generalize a.joinCom X b = C at hC ⊢
      generalize Body.transformInertiaToBodyFrame X b = T
      generalize Body.comIn X b = c' at hC ⊢
      have hx := congrArg V3.x hC
      have hy := congrArg V3.y hC
      have hz := congrArg V3.z hC
      simp only [alg] at hx hy hz
      ext <;> simp only [alg] <;> grind

/-- 1, with the hypotheses as requested (two of them are not used) -/
theorem join_toRBI' {a b u : Body α} {X : XT α} (hX : X.E.IsRot) (h : a.join X b = some u)
    (_hb : b.inertia.transpose = b.inertia) (_hM : a.mass + b.mass ≠ 0) :
    u.toRBI = a.toRBI + X.applyTransposeRBI b.toRBI := join_toRBI hX h

/-! ### 3. when `Join` succeeds -/

/-- 3 : `Join` raises the library error exactly when the total mass is zero and `b` is not the
    trivial (massless, zero-inertia) body -/
theorem join_eq_none_iff (a b : Body α) (X : XT α) :
    a.join X b = none ↔ a.mass + b.mass = 0 ∧ ¬(b.mass = 0 ∧ b.inertia = M3.zero) := by
  by_cases hb : b.mass = 0 ∧ b.inertia = M3.zero
  · simp [Body.join_null hb, hb]
  · by_cases hM : a.mass + b.mass = 0
    · simp [Body.join_zeroMass hb hM, hb, hM]
    · simp [Body.join_eq hb hM, hM]

/-- 3a -/
theorem join_isSome (a b : Body α) (X : XT α) (hM : a.mass + b.mass ≠ 0) :
    (a.join X b).isSome := by
  cases h : a.join X b with
  | some u => rfl
  | none => exact absurd ((join_eq_none_iff a b X).1 h).1 hM
example : (Ex.A.join Ex.X Ex.B).isSome := join_isSome _ _ _ Ex.AB_mass

/-- 3b : the library error -/
theorem join_none (a b : Body α) (X : XT α) (ha : a.mass = 0) (hb : b.mass = 0)
    (hI : b.inertia ≠ M3.zero) : a.join X b = none :=
  (join_eq_none_iff a b X).2 ⟨by rw [ha, hb]; grind, fun h => hI h.2⟩
example : Ex.Z0.join Ex.X Ex.Z = none :=
  join_none _ _ _ rfl rfl (by simp only [alg]; intro h; injection h with h; grind)

example : ∃ u, Ex.A.join Ex.X Ex.B = some u
    ∧ u.toRBI = Ex.A.toRBI + Ex.X.applyTransposeRBI Ex.B.toRBI := by
  obtain ⟨u, hu⟩ := Option.isSome_iff_exists.1 (join_isSome Ex.A Ex.B Ex.X Ex.AB_mass)
  exact ⟨u, hu, join_toRBI Ex.X_isRot hu⟩
example : ∃ u, Ex.A.join Ex.X Ex.B = some u
    ∧ u.toRBI = Ex.A.toRBI + Ex.X.applyTransposeRBI Ex.B.toRBI := by
  obtain ⟨u, hu⟩ := Option.isSome_iff_exists.1 (join_isSome Ex.A Ex.B Ex.X Ex.AB_mass)
  exact ⟨u, hu, join_toRBI' Ex.X_isRot hu Ex.B_symm Ex.AB_mass⟩
/-- the early-return branch (`b` massless with zero inertia) -/
example : ∃ u, Ex.A.join Ex.X Ex.Z0 = some u
    ∧ u.toRBI = Ex.A.toRBI + Ex.X.applyTransposeRBI Ex.Z0.toRBI :=
  ⟨Ex.A, Body.join_null ⟨rfl, rfl⟩, join_toRBI Ex.X_isRot (Body.join_null ⟨rfl, rfl⟩)⟩

/-- the rotation hypothesis of 1 cannot be dropped (a stretch along x) -/
example : ∃ (a b u : Body Rat) (X : XT Rat), a.join X b = some u
    ∧ u.toRBI ≠ a.toRBI + X.applyTransposeRBI b.toRBI := by
  have hb : ¬((⟨1, ⟨1, 1, 0⟩, M3.zero, false⟩ : Body Rat).mass = 0
      ∧ (⟨1, ⟨1, 1, 0⟩, M3.zero, false⟩ : Body Rat).inertia = M3.zero) := by
    intro h; have := h.1; simp only at this; grind
  have hM : (⟨1, V3.zero, M3.zero, false⟩ : Body Rat).mass
      + (⟨1, ⟨1, 1, 0⟩, M3.zero, false⟩ : Body Rat).mass ≠ 0 := by simp only; grind
  refine ⟨⟨1, V3.zero, M3.zero, false⟩, ⟨1, ⟨1, 1, 0⟩, M3.zero, false⟩, _,
    ⟨⟨2, 0, 0, 0, 1, 0, 0, 0, 1⟩, V3.zero⟩, Body.join_eq hb hM, ?_⟩
  intro h
  have h' := congrArg RBI.Ixx h
  simp only [Body.toRBI, Body.joinCom, Body.comIn, Body.originInertia,
    Body.transformInertiaToBodyFrame_eq, alg] at h'
  grind

/-! ### 2. `Join` is the rigid union -/

/-- 2 : mass, centre of mass and centroidal inertia of the joined body are those of the rigid union
    defined through the parallel-axis theorem (`Spec.rigidUnion`), for every relative pose `X`
    (`X.E` need not even be a rotation) and also when `b` is massless with zero inertia (the
    requested hypothesis "`b` not trivial" is not needed: with `a.mass + b.mass ≠ 0` the early return
    is the rigid union with nothing). -/
theorem join_eq_rigidUnion {a b u : Body α} {X : XT α} (h : a.join X b = some u)
    (ha : a.inertia.transpose = a.inertia) (hbs : b.inertia.transpose = b.inertia)
    (hM : a.mass + b.mass ≠ 0) :
    (u.mass, u.com, u.inertia)
      = Spec.rigidUnion a.mass a.com a.inertia X.E X.r b.mass b.com b.inertia := by
  rw [Spec.rigidUnion_eq]
  have hC := Body.joinCom_spec (X := X) hM
  by_cases hb : b.mass = 0 ∧ b.inertia = M3.zero
  · rw [Body.join_null hb] at h
    cases h
    obtain ⟨hb0, hbI⟩ := hb
    rw [hb0] at hM
    have hCa : a.joinCom X b = a.com := by
      ext <;> simp only [Body.joinCom, alg, hb0] <;> grind
    rw [hCa, hb0, hbI]
    simp only [Prod.mk.injEq]
    refine ⟨by grind, trivial, ?_⟩
    ext <;> simp only [alg, Spec.shiftInertia] <;> grind
  · rw [Body.join_eq hb hM] at h
    cases h
    simp only [Prod.mk.injEq, true_and]
    rw [← Spec.shiftInertia_core _ _ _ _ _ hC, Body.originInertia,
      Body.transformInertiaToBodyFrame_eq, M3.lowSym_of_symm ha, M3.lowSym_of_symm hbs]
    rfl
example : ∃ u, Ex.A.join Ex.X Ex.B = some u ∧ (u.mass, u.com, u.inertia)
    = Spec.rigidUnion Ex.A.mass Ex.A.com Ex.A.inertia Ex.X.E Ex.X.r
        Ex.B.mass Ex.B.com Ex.B.inertia := by
  obtain ⟨u, hu⟩ := Option.isSome_iff_exists.1 (join_isSome Ex.A Ex.B Ex.X Ex.AB_mass)
  exact ⟨u, hu, join_eq_rigidUnion hu Ex.A_symm Ex.B_symm Ex.AB_mass⟩

/-! ### 4, 5. `Separate` undoes `Join` -/

/-- 4 (corrected) : separating the joined body restores mass, centre of mass and inertia.
    The requested statement has the flag `false`; that is wrong in the early-return branch
    (`b` massless with zero inertia), where both calls return the receiver unchanged, flag included.
    Symmetry of `b.inertia` is not needed. -/
theorem separate_join {a b : Body α} {X : XT α} (ha : a.inertia.transpose = a.inertia)
    (hm : a.mass ≠ 0) (hM : a.mass + b.mass ≠ 0) :
    (a.join X b).bind (fun u => u.separate X b)
      = some ⟨a.mass, a.com, a.inertia,
          decide (b.mass = 0 ∧ b.inertia = M3.zero) && a.isVirtual⟩ := by
  by_cases hb : b.mass = 0 ∧ b.inertia = M3.zero
  · rw [Body.join_null hb, Option.bind_some, Body.separate_null hb]
    simp only [hb, and_self, decide_true, Bool.true_and]
  · rw [Body.separate_join_lowSym hb hm hM, M3.lowSym_of_symm ha]
    simp only [hb, decide_false, Bool.false_and]
example : (Ex.A.join Ex.X Ex.B).bind (fun u => u.separate Ex.X Ex.B)
    = some ⟨Ex.A.mass, Ex.A.com, Ex.A.inertia,
        decide (Ex.B.mass = 0 ∧ Ex.B.inertia = M3.zero) && Ex.A.isVirtual⟩ :=
  separate_join Ex.A_symm Ex.A_mass Ex.AB_mass

/-- 4, as requested: true when the receiver is not virtual or `b` is not the trivial body -/
theorem separate_join_false {a b : Body α} {X : XT α} (ha : a.inertia.transpose = a.inertia)
    (hm : a.mass ≠ 0) (hM : a.mass + b.mass ≠ 0)
    (hv : a.isVirtual = false ∨ ¬(b.mass = 0 ∧ b.inertia = M3.zero)) :
    (a.join X b).bind (fun u => u.separate X b) = some ⟨a.mass, a.com, a.inertia, false⟩ := by
  rw [separate_join ha hm hM]
  rcases hv with hv | hv
  · rw [hv, Bool.and_false]
  · simp only [hv, decide_false, Bool.false_and]
example : (Ex.A.join Ex.X Ex.B).bind (fun u => u.separate Ex.X Ex.B)
    = some ⟨Ex.A.mass, Ex.A.com, Ex.A.inertia, false⟩ :=
  separate_join_false Ex.A_symm Ex.A_mass Ex.AB_mass (Or.inl rfl)

/-- counterexample to 4 as requested (flag `false` unconditionally): a virtual receiver and the
    trivial body -/
example : ∃ (a b : Body Rat) (X : XT Rat), X.E.IsRot ∧ a.inertia.transpose = a.inertia
    ∧ b.inertia.transpose = b.inertia ∧ a.mass ≠ 0 ∧ a.mass + b.mass ≠ 0
    ∧ (a.join X b).bind (fun u => u.separate X b) ≠ some ⟨a.mass, a.com, a.inertia, false⟩ := by
  refine ⟨⟨1, V3.zero, M3.zero, true⟩, ⟨0, V3.zero, M3.zero, false⟩, XT.id, M3.isRot_one,
    rfl, rfl, by grind, by grind, ?_⟩
  rw [separate_join rfl (by grind) (by grind)]
  simp

/-- 4 without symmetry of the receiver's inertia: only the lower triangle comes back
    (`Body.separate_join_lowSym`) -/
example : ∃ (a b : Body Rat) (X : XT Rat), X.E.IsRot ∧ a.mass ≠ 0 ∧ a.mass + b.mass ≠ 0
    ∧ (a.join X b).bind (fun u => u.separate X b) ≠ some ⟨a.mass, a.com, a.inertia, false⟩ := by
  have hb : ¬((⟨1, V3.zero, M3.zero, false⟩ : Body Rat).mass = 0
      ∧ (⟨1, V3.zero, M3.zero, false⟩ : Body Rat).inertia = M3.zero) := by
    intro h; have := h.1; simp only at this; grind
  refine ⟨⟨1, V3.zero, ⟨1, 1, 0, 0, 1, 0, 0, 0, 1⟩, false⟩, ⟨1, V3.zero, M3.zero, false⟩, XT.id,
    M3.isRot_one, by simp only; grind, by simp only; grind, ?_⟩
  rw [Body.separate_join_lowSym hb (by simp only; grind) (by simp only; grind)]
  intro h
  have h' := congrArg (fun o => o.map (fun u => u.inertia.m01)) h
  simp only [Option.map_some, alg, Option.some.injEq] at h'
  grind

/-- 5 (general) : a massless receiver (any stored centre of mass, any symmetric inertia): the
    remainder is massless again, its centre of mass is reset to the origin, its inertia restored;
    no error. -/
theorem separate_join_massless_gen {a b : Body α} {X : XT α}
    (ha : a.inertia.transpose = a.inertia) (hm : a.mass = 0) (hbm : b.mass ≠ 0) :
    (a.join X b).bind (fun u => u.separate X b) = some ⟨0, V3.zero, a.inertia, false⟩ := by
  have hb : ¬(b.mass = 0 ∧ b.inertia = M3.zero) := fun h => hbm h.1
  have hM : a.mass + b.mass ≠ 0 := by grind
  rw [Body.join_eq hb hM, Option.bind_some]
  have hm' : a.mass + b.mass - b.mass = 0 := by grind
  rw [Body.separate_massless hb hm', Body.originInertia_join, Body.originInertia,
    M3.lowSym_of_symm ha, hm]
  generalize Body.transformInertiaToBodyFrame X b = T
  simp only [Option.some.injEq, Body.mk.injEq, and_true, true_and]
  ext <;> simp only [alg] <;> grind
example : (Ex.Z.join Ex.X Ex.B).bind (fun u => u.separate Ex.X Ex.B)
    = some ⟨0, V3.zero, Ex.Z.inertia, false⟩ :=
  separate_join_massless_gen Ex.Z_symm rfl Ex.B_mass

/-- 5 : the massless dummy link -/
theorem separate_join_massless {b : Body α} {X : XT α} (v : Bool) (hbm : b.mass ≠ 0) :
    ((⟨0, V3.zero, M3.zero, v⟩ : Body α).join X b).bind (fun u => u.separate X b)
      = some ⟨0, V3.zero, M3.zero, false⟩ :=
  separate_join_massless_gen (a := ⟨0, V3.zero, M3.zero, v⟩) rfl rfl hbm
example : ((⟨0, V3.zero, M3.zero, true⟩ : Body Rat).join Ex.X Ex.B).bind
    (fun u => u.separate Ex.X Ex.B) = some ⟨0, V3.zero, M3.zero, false⟩ :=
  separate_join_massless true Ex.B_mass

/-! ### 6. the setter core: separate the old body, join the new one -/

/-- 6 : replacing the parameters `f` of a fixed body by `f'` (`Separate` then `Join`, as the setters
    do) gives the mass, centre of mass and inertia of joining `f'` to the original parent — also when
    the second `Join` fails (both sides are `none`), for any `f'` and any new placement `X'`. -/
theorem setter_core {P f f' : Body α} {X X' : XT α} (hP : P.inertia.transpose = P.inertia)
    (hm : P.mass ≠ 0) (hM : P.mass + f.mass ≠ 0) :
    (((P.join X f).bind (fun u => u.separate X f)).bind (fun p => p.join X' f')).map Body.params
      = (P.join X' f').map Body.params := by
  rw [separate_join hP hm hM, Option.bind_some]
  apply Body.join_params_congr
  rfl
example : (((Ex.A.join Ex.X Ex.B).bind (fun u => u.separate Ex.X Ex.B)).bind
      (fun p => p.join Ex.X Ex.B')).map Body.params = (Ex.A.join Ex.X Ex.B').map Body.params :=
  setter_core Ex.A_symm Ex.A_mass Ex.AB_mass

/-- 6, massless parent (a dummy link: zero mass, centre of mass at the origin, any symmetric
    inertia, in particular `⟨0, 0, 0, v⟩`) -/
theorem setter_core_massless {P f f' : Body α} {X X' : XT α}
    (hP : P.inertia.transpose = P.inertia) (hm : P.mass = 0) (hc : P.com = V3.zero)
    (hf : f.mass ≠ 0) :
    (((P.join X f).bind (fun u => u.separate X f)).bind (fun p => p.join X' f')).map Body.params
      = (P.join X' f').map Body.params := by
  rw [separate_join_massless_gen hP hm hf, Option.bind_some]
  apply Body.join_params_congr
  simp only [Body.params, hm, hc]
example : (((Ex.Z0.join Ex.X Ex.B).bind (fun u => u.separate Ex.X Ex.B)).bind
      (fun p => p.join Ex.X Ex.B')).map Body.params = (Ex.Z0.join Ex.X Ex.B').map Body.params :=
  setter_core_massless rfl rfl rfl Ex.B_mass

/-- 6, including the `is_virtual` flag: equality of the bodies, when the parent is not virtual or
    the new body is not the trivial one -/
theorem setter_core_eq {P f f' : Body α} {X X' : XT α} (hP : P.inertia.transpose = P.inertia)
    (hm : P.mass ≠ 0) (hM : P.mass + f.mass ≠ 0)
    (hv : P.isVirtual = false ∨ ¬(f'.mass = 0 ∧ f'.inertia = M3.zero)) :
    ((P.join X f).bind (fun u => u.separate X f)).bind (fun p => p.join X' f')
      = P.join X' f' := by
  rw [separate_join hP hm hM, Option.bind_some]
  rcases hv with hv | hf'
  · obtain ⟨m, c, I, v⟩ := P
    simp only at hv
    subst hv
    simp only [Bool.and_false]
  · generalize (decide (f.mass = 0 ∧ f.inertia = M3.zero) && P.isVirtual) = v
    by_cases hM' : P.mass + f'.mass = 0
    · rw [Body.join_zeroMass (a := P) hf' hM',
        Body.join_zeroMass (a := ⟨P.mass, P.com, P.inertia, v⟩) hf' hM']
    · rw [Body.join_eq (a := P) hf' hM',
        Body.join_eq (a := ⟨P.mass, P.com, P.inertia, v⟩) hf' hM']
      rfl
example : ((Ex.A.join Ex.X Ex.B).bind (fun u => u.separate Ex.X Ex.B)).bind
      (fun p => p.join Ex.X Ex.B') = Ex.A.join Ex.X Ex.B' :=
  setter_core_eq Ex.A_symm Ex.A_mass Ex.AB_mass (Or.inl rfl)

/-- 6, massless parent, including the flag -/
theorem setter_core_eq_massless {P f f' : Body α} {X X' : XT α}
    (hP : P.inertia.transpose = P.inertia) (hm : P.mass = 0) (hc : P.com = V3.zero)
    (hf : f.mass ≠ 0)
    (hv : P.isVirtual = false ∨ ¬(f'.mass = 0 ∧ f'.inertia = M3.zero)) :
    ((P.join X f).bind (fun u => u.separate X f)).bind (fun p => p.join X' f')
      = P.join X' f' := by
  rw [separate_join_massless_gen hP hm hf, Option.bind_some]
  obtain ⟨m, c, I, v⟩ := P
  simp only at hm hc hv
  subst hm hc
  rcases hv with hv | hf'
  · subst hv; rfl
  · by_cases hM' : (0 : α) + f'.mass = 0
    · rw [Body.join_zeroMass (a := ⟨0, V3.zero, I, v⟩) hf' hM',
        Body.join_zeroMass (a := ⟨0, V3.zero, I, false⟩) hf' hM']
    · rw [Body.join_eq (a := ⟨0, V3.zero, I, v⟩) hf' hM',
        Body.join_eq (a := ⟨0, V3.zero, I, false⟩) hf' hM']
      rfl
example : ((Ex.Z0.join Ex.X Ex.B).bind (fun u => u.separate Ex.X Ex.B)).bind
      (fun p => p.join Ex.X Ex.B') = Ex.Z0.join Ex.X Ex.B' :=
  setter_core_eq_massless rfl rfl rfl Ex.B_mass (Or.inr (fun h => by
    have := h.1; simp only [alg] at this; grind))

/-! ### 7. spatial inertias subtract -/

/-- 7 : `Separate` subtracts spatial inertias (all 10 fields), when the remainder has mass.
    No symmetry hypothesis is needed. -/
theorem toRBI_separate {u b r : Body α} {X : XT α} (hX : X.E.IsRot)
    (h : u.separate X b = some r) (hm : u.mass - b.mass ≠ 0) :
    r.toRBI + X.applyTransposeRBI b.toRBI = u.toRBI := by
  rw [Body.applyTransposeRBI_toRBI X hX]
  by_cases hb : b.mass = 0 ∧ b.inertia = M3.zero
  · rw [Body.separate_null hb] at h
    cases h
    rw [Body.transformInertiaToBodyFrame_eq, hb.1, hb.2]
    alg_ext
  · rw [Body.separate_eq hb hm] at h
    cases h
    have hC := Body.sepCom_spec (X := X) hm
    rw [Body.toRBI_eq, Body.toRBI_eq]
    simp only [Body.originInertia]
    generalize u.sepCom X b = C at hC ⊢
    generalize Body.transformInertiaToBodyFrame X b = T
    generalize Body.comIn X b = c' at hC ⊢
    have hx := congrArg V3.x hC
    have hy := congrArg V3.y hC
    have hz := congrArg V3.z hC
    simp only [alg] at hx hy hz
    ext <;> simp only [alg] <;> grind
example : ∃ r, Ex.B'.separate Ex.X Ex.B = some r
    ∧ r.toRBI + Ex.X.applyTransposeRBI Ex.B.toRBI = Ex.B'.toRBI := by
  have hb : ¬(Ex.B.mass = 0 ∧ Ex.B.inertia = M3.zero) := fun h => Ex.B_mass h.1
  have hm : Ex.B'.mass - Ex.B.mass ≠ 0 := by simp only [alg]; grind
  exact ⟨_, Body.separate_eq hb hm, toRBI_separate Ex.X_isRot (Body.separate_eq hb hm) hm⟩

/-- 7, massless remainder: mass and rotational inertia still subtract; the first moment `h` of the
    remainder is set to zero whatever `u.mass * u.com - b.mass * (Eᵀ c_b + r)` was. -/
theorem toRBI_separate_massless {u b r : Body α} {X : XT α} (hX : X.E.IsRot)
    (h : u.separate X b = some r) (hb : ¬(b.mass = 0 ∧ b.inertia = M3.zero))
    (hm : u.mass - b.mass = 0) :
    r.toRBI + X.applyTransposeRBI b.toRBI
      = { u.toRBI with h := b.mass * (X.E.tmulVec b.com + X.r) } := by
  rw [Body.applyTransposeRBI_toRBI X hX]
  rw [Body.separate_massless hb hm] at h
  cases h
  rw [Body.toRBI_eq, Body.toRBI_eq]
  simp only [Body.originInertia, Body.comIn]
  generalize Body.transformInertiaToBodyFrame X b = T
  generalize X.E.tmulVec b.com + X.r = c'
  ext <;> simp only [alg] <;> grind
example : ∃ r, Ex.B.separate Ex.X Ex.B = some r ∧ r.toRBI + Ex.X.applyTransposeRBI Ex.B.toRBI
    = { Ex.B.toRBI with h := Ex.B.mass * (Ex.X.E.tmulVec Ex.B.com + Ex.X.r) } := by
  have hb : ¬(Ex.B.mass = 0 ∧ Ex.B.inertia = M3.zero) := fun h => Ex.B_mass h.1
  have hm : Ex.B.mass - Ex.B.mass = 0 := by grind
  exact ⟨_, Body.separate_massless hb hm,
    toRBI_separate_massless Ex.X_isRot (Body.separate_massless hb hm) hb hm⟩

/-- 7 fails for a massless remainder (the hypothesis `u.mass - b.mass ≠ 0` cannot be dropped) -/
example : ∃ (u b r : Body Rat) (X : XT Rat), X.E.IsRot ∧ u.separate X b = some r
    ∧ r.toRBI + X.applyTransposeRBI b.toRBI ≠ u.toRBI := by
  have hb : ¬((⟨1, ⟨1, 0, 0⟩, M3.zero, false⟩ : Body Rat).mass = 0
      ∧ (⟨1, ⟨1, 0, 0⟩, M3.zero, false⟩ : Body Rat).inertia = M3.zero) := by
    intro h; have := h.1; simp only at this; grind
  have hM : (⟨1, V3.zero, M3.zero, false⟩ : Body Rat).mass
      - (⟨1, ⟨1, 0, 0⟩, M3.zero, false⟩ : Body Rat).mass = 0 := by simp only; grind
  refine ⟨⟨1, V3.zero, M3.zero, false⟩, ⟨1, ⟨1, 0, 0⟩, M3.zero, false⟩, _, XT.id,
    M3.isRot_one, Body.separate_massless hb hM, ?_⟩
  intro h
  have h' := congrArg (fun I => I.h.x) h
  simp only [Body.toRBI, Body.originInertia, Body.transformInertiaToBodyFrame_eq, alg] at h'
  grind

/-! ### the setters on the model

`SetBodyMass`, `SetBodyInertia`, `SetBodyCenterOfMass`, `SetBodyInertialParameters` are
`ModelS.setInertial` with the corresponding parameter update (`updB` on a movable body, `updF` on a
fixed body).  The theorems compare the setter applied to the body that has just been added with
adding the body with the new parameters instead ("building it from scratch").
Well-formedness of the model used below: one spatial inertia per body (`I.length = bodies.length`),
fewer bodies than the fixed-body discriminator, no wrap-around of the fixed-body id. -/

/-- setters, movable body, one construction step (`AddBody` for a joint with its own body) -/
theorem setInertial_addBodyMovable {m : ModelS α} {parent : Nat} {frame : XT α} {j : Joint α}
    {b : Body α} {name : String} {m1 : ModelS α} {id : Nat}
    (updB : Body α → Body α) (updF : FixedBody α → FixedBody α)
    (hadd : m.addBodyMovable parent frame j b name = (m1, .ok id))
    (hlen : m.I.length = m.bodies.length) (hsmall : m.bodies.length < fixedDisc) :
    m1.setInertial id updB updF
      = ((m.addBodyMovable parent frame j (updB b) name).1, .ok ()) :=
  ModelS.setterOK_addBodyMovable m parent frame j name hlen hsmall b m1 id hadd updB updF
example (updB : Body Rat → Body Rat) (updF : FixedBody Rat → FixedBody Rat) :
    (ModelS.init.addBodyMovable 0 Ex.X Ex.jzS5 Ex.A "a").1.setInertial 1 updB updF
      = ((ModelS.init.addBodyMovable 0 Ex.X Ex.jzS5 (updB Ex.A) "a").1, .ok ()) :=
  setInertial_addBodyMovable updB updF rfl rfl (by decide)

/-- setters, movable body: `Model::AddBody` with any joint type except the fixed joint (single-DoF,
    3-DoF, custom proxy, emulated multi-DoF chains, floating base: the returned id is the body that
    carries `b`), then a setter on the returned id = `AddBody` with the updated body. -/
theorem setInertial_addBody {m : ModelS α} {parent : Nat} {frame : XT α} {j : Joint α}
    {b : Body α} {name : String} {m1 : ModelS α} {id : Nat}
    (updB : Body α → Body α) (updF : FixedBody α → FixedBody α)
    (hjt : j.jt ≠ .fixed)
    (hadd : m.addBody parent frame j b name = (m1, .ok id))
    (hlen : m.I.length = m.bodies.length)
    (hsmall : m.bodies.length + j.axes.length + 1 < fixedDisc) :
    m1.setInertial id updB updF = ((m.addBody parent frame j (updB b) name).1, .ok ()) :=
  ModelS.setterOK_addBody m parent frame j name hjt hlen hsmall b m1 id hadd updB updF
example (updB : Body Rat → Body Rat) (updF : FixedBody Rat → FixedBody Rat) :
    Ex.mA.setInertial 1 updB updF
      = ((ModelS.init.addBody 0 Ex.X Ex.jzS5 (updB Ex.A) "a").1, .ok ()) :=
  setInertial_addBody updB updF (by decide) Ex.mA_add rfl (by decide)
/-- a 3-DoF emulated joint (two massless virtual bodies, then the body) -/
example (updB : Body Rat → Body Rat) (updF : FixedBody Rat → FixedBody Rat) :
    (ModelS.init.addBody 0 Ex.X (Joint.ofAxes [sv6 0 0 1 0 0 0, sv6 0 1 0 0 0 0, sv6 0 0 0 1 0 0])
        Ex.A "a").1.setInertial 3 updB updF
      = ((ModelS.init.addBody 0 Ex.X
          (Joint.ofAxes [sv6 0 0 1 0 0 0, sv6 0 1 0 0 0 0, sv6 0 0 0 1 0 0]) (updB Ex.A) "a").1,
          .ok ()) :=
  setInertial_addBody updB updF (by decide) rfl rfl (by decide)

/-- the same for `AddBodyCustomJoint` -/
theorem setInertial_addBodyCustomJoint {m : ModelS α} {parent : Nat} {frame : XT α}
    {k : CustomKind} {b : Body α} {name : String} {m1 : ModelS α} {id : Nat}
    (updB : Body α → Body α) (updF : FixedBody α → FixedBody α)
    (hadd : m.addBodyCustomJoint parent frame k b name = (m1, .ok id))
    (hlen : m.I.length = m.bodies.length) (hsmall : m.bodies.length + 4 < fixedDisc) :
    m1.setInertial id updB updF
      = ((m.addBodyCustomJoint parent frame k (updB b) name).1, .ok ()) :=
  ModelS.setterOK_addBodyCustomJoint m parent frame k name hlen hsmall b m1 id hadd updB updF
example (updB : Body Rat → Body Rat) (updF : FixedBody Rat → FixedBody Rat) :
    (ModelS.init.addBodyCustomJoint 0 Ex.X .cyl Ex.A "a").1.setInertial 1 updB updF
      = ((ModelS.init.addBodyCustomJoint 0 Ex.X .cyl (updB Ex.A) "a").1, .ok ()) :=
  setInertial_addBodyCustomJoint updB updF rfl rfl (by decide)

/-- the four setters on a movable body -/
theorem setBodyMass_addBody {m : ModelS α} {parent : Nat} {frame : XT α} {j : Joint α}
    {b : Body α} {name : String} {m1 : ModelS α} {id : Nat} (hjt : j.jt ≠ .fixed)
    (hadd : m.addBody parent frame j b name = (m1, .ok id))
    (hlen : m.I.length = m.bodies.length)
    (hsmall : m.bodies.length + j.axes.length + 1 < fixedDisc) (mass' : α) :
    m1.setBodyMass id mass'
      = ((m.addBody parent frame j { b with mass := mass' } name).1, .ok ()) :=
  setInertial_addBody _ _ hjt hadd hlen hsmall
theorem setBodyInertia_addBody {m : ModelS α} {parent : Nat} {frame : XT α} {j : Joint α}
    {b : Body α} {name : String} {m1 : ModelS α} {id : Nat} (hjt : j.jt ≠ .fixed)
    (hadd : m.addBody parent frame j b name = (m1, .ok id))
    (hlen : m.I.length = m.bodies.length)
    (hsmall : m.bodies.length + j.axes.length + 1 < fixedDisc) (I' : M3 α) :
    m1.setBodyInertia id I'
      = ((m.addBody parent frame j { b with inertia := I' } name).1, .ok ()) :=
  setInertial_addBody _ _ hjt hadd hlen hsmall
theorem setBodyCenterOfMass_addBody {m : ModelS α} {parent : Nat} {frame : XT α} {j : Joint α}
    {b : Body α} {name : String} {m1 : ModelS α} {id : Nat} (hjt : j.jt ≠ .fixed)
    (hadd : m.addBody parent frame j b name = (m1, .ok id))
    (hlen : m.I.length = m.bodies.length)
    (hsmall : m.bodies.length + j.axes.length + 1 < fixedDisc) (c' : V3 α) :
    m1.setBodyCenterOfMass id c'
      = ((m.addBody parent frame j { b with com := c' } name).1, .ok ()) :=
  setInertial_addBody _ _ hjt hadd hlen hsmall
theorem setBodyInertialParameters_addBody {m : ModelS α} {parent : Nat} {frame : XT α}
    {j : Joint α} {b : Body α} {name : String} {m1 : ModelS α} {id : Nat} (hjt : j.jt ≠ .fixed)
    (hadd : m.addBody parent frame j b name = (m1, .ok id))
    (hlen : m.I.length = m.bodies.length)
    (hsmall : m.bodies.length + j.axes.length + 1 < fixedDisc) (mass' : α) (I' : M3 α) (c' : V3 α) :
    m1.setBodyInertialParameters id mass' I' c'
      = ((m.addBody parent frame j { b with mass := mass', inertia := I', com := c' } name).1,
          .ok ()) :=
  setInertial_addBody _ _ hjt hadd hlen hsmall
example : Ex.mA.setBodyMass 1 7
    = ((ModelS.init.addBody 0 Ex.X Ex.jzS5 { Ex.A with mass := 7 } "a").1, .ok ()) :=
  setBodyMass_addBody (by decide) Ex.mA_add rfl (by decide) 7
example : Ex.mA.setBodyInertia 1 Ex.Ic2
    = ((ModelS.init.addBody 0 Ex.X Ex.jzS5 { Ex.A with inertia := Ex.Ic2 } "a").1, .ok ()) :=
  setBodyInertia_addBody (by decide) Ex.mA_add rfl (by decide) _
example : Ex.mA.setBodyCenterOfMass 1 ⟨1, 2, 3⟩
    = ((ModelS.init.addBody 0 Ex.X Ex.jzS5 { Ex.A with com := ⟨1, 2, 3⟩ } "a").1, .ok ()) :=
  setBodyCenterOfMass_addBody (by decide) Ex.mA_add rfl (by decide) _
example : Ex.mA.setBodyInertialParameters 1 7 Ex.Ic2 ⟨1, 2, 3⟩
    = ((ModelS.init.addBody 0 Ex.X Ex.jzS5
        { Ex.A with mass := 7, inertia := Ex.Ic2, com := ⟨1, 2, 3⟩ } "a").1, .ok ()) :=
  setBodyInertialParameters_addBody (by decide) Ex.mA_add rfl (by decide) _ _ _

/-- setters, fixed body: a setter applied to the fixed body that has just been added (separate the
    old parameters from the movable parent, join the new ones) gives the model obtained by adding
    the body with the new parameters instead.
    `fb` is the record of the new fixed body, `P` the movable parent it was merged into (before the
    merge).  The parent has mass, or it is a massless link with centre of mass at the origin and the
    old body has mass; `hM'` says that the from-scratch construction does not raise the zero-mass
    error; `hv` concerns only the `is_virtual` flag. -/
theorem setInertial_addBodyFixed {m : ModelS α} {parent : Nat} {frame : XT α} {b : Body α}
    {name : String} {m1 : ModelS α} {id : Nat}
    (updB : Body α → Body α) (updF : FixedBody α → FixedBody α)
    (hupd : ∀ f, (updF f).movableParent = f.movableParent
      ∧ (updF f).parentTransform = f.parentTransform)
    (hadd : m.addBodyFixed parent frame b name = (m1, .ok id))
    (hid : id < 4294967295)
    (fb : FixedBody α) (hfb : fb = m1.fixedBody (id - fixedDisc))
    (P : Body α) (hPdef : P = m.body fb.movableParent)
    (hrange : fb.movableParent < m.bodies.length)
    (hP : P.inertia.transpose = P.inertia)
    (hmass : P.mass ≠ 0 ∨ (P.mass = 0 ∧ P.com = V3.zero ∧ b.mass ≠ 0))
    (hM' : P.mass + (updF fb).mass ≠ 0 ∨ ((updF fb).mass = 0 ∧ (updF fb).inertia = M3.zero))
    (hv : P.isVirtual = false ∨ ¬((updF fb).mass = 0 ∧ (updF fb).inertia = M3.zero)) :
    m1.setInertial id updB updF
      = ((m.addBodyFixed parent frame (updF fb).toBody name).1, .ok ()) := by
  rw [ModelS.addBodyFixed_fixedBody hadd] at hfb
  obtain ⟨_, _, pb, hpb, _⟩ := ModelS.addBodyFixed_ok hadd
  subst hfb
  simp only at hPdef hrange
  rw [← hPdef] at hpb
  generalize hb'' : (updF ⟨b.mass, b.com, b.inertia, (m.fixedTarget parent frame).1,
    (m.fixedTarget parent frame).2⟩).toBody = b'' at *
  have hb''m : b''.mass = (updF ⟨b.mass, b.com, b.inertia, (m.fixedTarget parent frame).1,
      (m.fixedTarget parent frame).2⟩).mass := by rw [← hb'']; rfl
  have hb''I : b''.inertia = (updF ⟨b.mass, b.com, b.inertia, (m.fixedTarget parent frame).1,
      (m.fixedTarget parent frame).2⟩).inertia := by rw [← hb'']; rfl
  rw [← hb''m, ← hb''I] at hM' hv
  -- the Body-level core
  have hcore : ((P.join (m.fixedTarget parent frame).2 b).bind
      (fun u => u.separate (m.fixedTarget parent frame).2 b)).bind
      (fun p => p.join (m.fixedTarget parent frame).2 b'')
      = P.join (m.fixedTarget parent frame).2 b'' := by
    rcases hmass with hm | ⟨hm, hc, hbm⟩
    · have hM : P.mass + b.mass ≠ 0 := by
        intro h0
        by_cases hb : b.mass = 0 ∧ b.inertia = M3.zero
        · rw [hb.1] at h0; exact hm (by grind)
        · rw [Body.join_zeroMass hb h0] at hpb; cases hpb
      exact setter_core_eq hP hm hM hv
    · exact setter_core_eq_massless hP hm hc hbm hv
  -- the from-scratch `Join` succeeds
  obtain ⟨p2, hp2⟩ : ∃ p2, P.join (m.fixedTarget parent frame).2 b'' = some p2 := by
    rcases hM' with hM' | hnull
    · exact Option.isSome_iff_exists.1 (join_isSome _ _ _ hM')
    · exact ⟨P, Body.join_null hnull⟩
  rw [hpb, Option.bind_some, hp2] at hcore
  obtain ⟨p1, hp1, hp1j⟩ := Option.bind_eq_some_iff.1 hcore
  rw [Body.separate_congr_right (b := b) (b' := ⟨b.mass, b.com, b.inertia, false⟩) rfl] at hp1
  rw [hPdef] at hpb hp2
  rw [← hb''] at hp1j hp2 ⊢
  exact ModelS.setInertial_addBodyFixed_aux updB updF hadd hid hupd hrange hpb hp1 hp1j hp2


/-- setters, fixed body, through `Model::AddBody` with the fixed joint -/
theorem setInertial_addBody_fixed {m : ModelS α} {parent : Nat} {frame : XT α} {j : Joint α}
    {b : Body α} {name : String} {m1 : ModelS α} {id : Nat}
    (updB : Body α → Body α) (updF : FixedBody α → FixedBody α)
    (hupd : ∀ f, (updF f).movableParent = f.movableParent
      ∧ (updF f).parentTransform = f.parentTransform)
    (hjt : j.jt = .fixed)
    (hadd : m.addBody parent frame j b name = (m1, .ok id))
    (hid : id < 4294967295)
    (fb : FixedBody α) (hfb : fb = m1.fixedBody (id - fixedDisc))
    (P : Body α) (hPdef : P = m.body fb.movableParent)
    (hrange : fb.movableParent < m.bodies.length)
    (hP : P.inertia.transpose = P.inertia)
    (hmass : P.mass ≠ 0 ∨ (P.mass = 0 ∧ P.com = V3.zero ∧ b.mass ≠ 0))
    (hM' : P.mass + (updF fb).mass ≠ 0 ∨ ((updF fb).mass = 0 ∧ (updF fb).inertia = M3.zero))
    (hv : P.isVirtual = false ∨ ¬((updF fb).mass = 0 ∧ (updF fb).inertia = M3.zero)) :
    m1.setInertial id updB updF
      = ((m.addBody parent frame j (updF fb).toBody name).1, .ok ()) := by
  rw [ModelS.addBody_fixed _ _ _ _ _ _ hjt] at hadd ⊢
  exact setInertial_addBodyFixed updB updF hupd hadd hid fb hfb P hPdef hrange hP hmass hM' hv

/-- `SetBodyInertialParameters` on a fixed body -/
theorem setBodyInertialParameters_addBody_fixed {m : ModelS α} {parent : Nat} {frame : XT α}
    {j : Joint α} {b : Body α} {name : String} {m1 : ModelS α} {id : Nat}
    (hjt : j.jt = .fixed)
    (hadd : m.addBody parent frame j b name = (m1, .ok id))
    (hid : id < 4294967295)
    (P : Body α) (hPdef : P = m.body (m1.fixedBody (id - fixedDisc)).movableParent)
    (hrange : (m1.fixedBody (id - fixedDisc)).movableParent < m.bodies.length)
    (hP : P.inertia.transpose = P.inertia)
    (hmass : P.mass ≠ 0 ∨ (P.mass = 0 ∧ P.com = V3.zero ∧ b.mass ≠ 0))
    (mass' : α) (I' : M3 α) (c' : V3 α)
    (hM' : P.mass + mass' ≠ 0 ∨ (mass' = 0 ∧ I' = M3.zero))
    (hv : P.isVirtual = false ∨ ¬(mass' = 0 ∧ I' = M3.zero)) :
    m1.setBodyInertialParameters id mass' I' c'
      = ((m.addBody parent frame j ⟨mass', c', I', false⟩ name).1, .ok ()) :=
  setInertial_addBody_fixed _ (fun f => { f with mass := mass', inertia := I', com := c' })
    (fun _ => ⟨rfl, rfl⟩) hjt hadd hid _ rfl P hPdef hrange hP hmass hM' hv

/-- `SetBodyMass` on a fixed body -/
theorem setBodyMass_addBody_fixed {m : ModelS α} {parent : Nat} {frame : XT α}
    {j : Joint α} {b : Body α} {name : String} {m1 : ModelS α} {id : Nat}
    (hjt : j.jt = .fixed)
    (hadd : m.addBody parent frame j b name = (m1, .ok id))
    (hid : id < 4294967295)
    (P : Body α) (hPdef : P = m.body (m1.fixedBody (id - fixedDisc)).movableParent)
    (hrange : (m1.fixedBody (id - fixedDisc)).movableParent < m.bodies.length)
    (hP : P.inertia.transpose = P.inertia)
    (hmass : P.mass ≠ 0 ∨ (P.mass = 0 ∧ P.com = V3.zero ∧ b.mass ≠ 0))
    (mass' : α)
    (hM' : P.mass + mass' ≠ 0 ∨ (mass' = 0 ∧ b.inertia = M3.zero))
    (hv : P.isVirtual = false ∨ ¬(mass' = 0 ∧ b.inertia = M3.zero)) :
    m1.setBodyMass id mass'
      = ((m.addBody parent frame j ⟨mass', b.com, b.inertia, false⟩ name).1, .ok ()) := by
  have hfb := ModelS.addBodyFixed_fixedBody (by rw [← ModelS.addBody_fixed _ _ _ _ _ _ hjt]; exact hadd)
  have h := setInertial_addBody_fixed (fun b => { b with mass := mass' })
    (fun f => { f with mass := mass' })
    (fun _ => ⟨rfl, rfl⟩) hjt hadd hid _ rfl P hPdef hrange hP hmass
    (by simp only [hfb]; exact hM') (by simp only [hfb]; exact hv)
  simp only [hfb, FixedBody.toBody] at h
  exact h

/-- `SetBodyInertia` on a fixed body -/
theorem setBodyInertia_addBody_fixed {m : ModelS α} {parent : Nat} {frame : XT α}
    {j : Joint α} {b : Body α} {name : String} {m1 : ModelS α} {id : Nat}
    (hjt : j.jt = .fixed)
    (hadd : m.addBody parent frame j b name = (m1, .ok id))
    (hid : id < 4294967295)
    (P : Body α) (hPdef : P = m.body (m1.fixedBody (id - fixedDisc)).movableParent)
    (hrange : (m1.fixedBody (id - fixedDisc)).movableParent < m.bodies.length)
    (hP : P.inertia.transpose = P.inertia)
    (hmass : P.mass ≠ 0 ∨ (P.mass = 0 ∧ P.com = V3.zero ∧ b.mass ≠ 0))
    (I' : M3 α)
    (hM' : P.mass + b.mass ≠ 0 ∨ (b.mass = 0 ∧ I' = M3.zero))
    (hv : P.isVirtual = false ∨ ¬(b.mass = 0 ∧ I' = M3.zero)) :
    m1.setBodyInertia id I'
      = ((m.addBody parent frame j ⟨b.mass, b.com, I', false⟩ name).1, .ok ()) := by
  have hfb := ModelS.addBodyFixed_fixedBody (by rw [← ModelS.addBody_fixed _ _ _ _ _ _ hjt]; exact hadd)
  have h := setInertial_addBody_fixed (fun b => { b with inertia := I' })
    (fun f => { f with inertia := I' })
    (fun _ => ⟨rfl, rfl⟩) hjt hadd hid _ rfl P hPdef hrange hP hmass
    (by simp only [hfb]; exact hM') (by simp only [hfb]; exact hv)
  simp only [hfb, FixedBody.toBody] at h
  exact h

/-- `SetBodyCenterOfMass` on a fixed body -/
theorem setBodyCenterOfMass_addBody_fixed {m : ModelS α} {parent : Nat} {frame : XT α}
    {j : Joint α} {b : Body α} {name : String} {m1 : ModelS α} {id : Nat}
    (hjt : j.jt = .fixed)
    (hadd : m.addBody parent frame j b name = (m1, .ok id))
    (hid : id < 4294967295)
    (P : Body α) (hPdef : P = m.body (m1.fixedBody (id - fixedDisc)).movableParent)
    (hrange : (m1.fixedBody (id - fixedDisc)).movableParent < m.bodies.length)
    (hP : P.inertia.transpose = P.inertia)
    (hmass : P.mass ≠ 0 ∨ (P.mass = 0 ∧ P.com = V3.zero ∧ b.mass ≠ 0))
    (c' : V3 α)
    (hv : P.isVirtual = false ∨ ¬(b.mass = 0 ∧ b.inertia = M3.zero)) :
    m1.setBodyCenterOfMass id c'
      = ((m.addBody parent frame j ⟨b.mass, c', b.inertia, false⟩ name).1, .ok ()) := by
  have hadd' : m.addBodyFixed parent frame b name = (m1, .ok id) := by
    rw [← ModelS.addBody_fixed _ _ _ _ _ _ hjt]; exact hadd
  have hfb := ModelS.addBodyFixed_fixedBody hadd'
  -- the from-scratch `Join` succeeds because the original one did (same mass and inertia)
  have hM' : P.mass + b.mass ≠ 0 ∨ (b.mass = 0 ∧ b.inertia = M3.zero) := by
    obtain ⟨_, _, pb, hpb, _⟩ := ModelS.addBodyFixed_ok hadd'
    rw [hfb] at hPdef
    rw [← hPdef] at hpb
    by_cases hb : b.mass = 0 ∧ b.inertia = M3.zero
    · exact Or.inr hb
    · refine Or.inl (fun h0 => ?_)
      rw [Body.join_zeroMass hb h0] at hpb
      cases hpb
  have h := setInertial_addBody_fixed (fun b => { b with com := c' })
    (fun f => { f with com := c' })
    (fun _ => ⟨rfl, rfl⟩) hjt hadd hid _ rfl P hPdef hrange hP hmass
    (by simp only [hfb]; exact hM') (by simp only [hfb]; exact hv)
  simp only [hfb, FixedBody.toBody] at h
  exact h


/-! examples for the fixed-body setters: the model `mA` (one revolute body `A`) with `B` attached
    by a fixed joint (`mB`); the movable parent is `A` -/
section
open Ex
example (updB : Body Rat → Body Rat) :
    mB.setInertial fixedDisc updB (fun f => { f with mass := 7, com := ⟨1, 2, 3⟩ })
      = ((mA.addBodyFixed 1 X ⟨7, ⟨1, 2, 3⟩, B.inertia, false⟩ "b").1, .ok ()) := by
  have hadd : mA.addBodyFixed 1 X B "b" = (mB, .ok fixedDisc) := by
    rw [← ModelS.addBody_fixed mA 1 X jfixS5 B "b" rfl]; exact mB_add
  have h := setInertial_addBodyFixed updB (fun f => { f with mass := 7, com := ⟨1, 2, 3⟩ })
    (fun _ => ⟨rfl, rfl⟩) hadd (by decide) _ rfl A (by rw [mB_fixedBody]; rfl) (by rw [mB_fixedBody]; decide)
    A_symm (Or.inl A_mass) (Or.inl (by simp only [alg]; grind)) (Or.inl rfl)
  rw [mB_fixedBody] at h
  exact h
example (updB : Body Rat → Body Rat) :
    mB.setInertial fixedDisc updB (fun f => { f with mass := 7, com := ⟨1, 2, 3⟩ })
      = ((mA.addBody 1 X jfixS5 ⟨7, ⟨1, 2, 3⟩, B.inertia, false⟩ "b").1, .ok ()) := by
  have h := setInertial_addBody_fixed updB (fun f => { f with mass := 7, com := ⟨1, 2, 3⟩ })
    (fun _ => ⟨rfl, rfl⟩) rfl mB_add (by decide) _ rfl A (by rw [mB_fixedBody]; rfl)
    (by rw [mB_fixedBody]; decide) A_symm (Or.inl A_mass) (Or.inl (by simp only [alg]; grind)) (Or.inl rfl)
  rw [mB_fixedBody] at h
  exact h
example : mB.setBodyInertialParameters fixedDisc 7 Ic ⟨1, 2, 3⟩
    = ((mA.addBody 1 X jfixS5 ⟨7, ⟨1, 2, 3⟩, Ic, false⟩ "b").1, .ok ()) :=
  setBodyInertialParameters_addBody_fixed rfl mB_add (by decide) A (by rw [mB_fixedBody]; rfl)
    (by rw [mB_fixedBody]; decide) A_symm (Or.inl A_mass) 7 Ic ⟨1, 2, 3⟩
    (Or.inl (by simp only [alg]; grind)) (Or.inl rfl)
example : mB.setBodyMass fixedDisc 7
    = ((mA.addBody 1 X jfixS5 ⟨7, B.com, B.inertia, false⟩ "b").1, .ok ()) :=
  setBodyMass_addBody_fixed rfl mB_add (by decide) A (by rw [mB_fixedBody]; rfl)
    (by rw [mB_fixedBody]; decide) A_symm (Or.inl A_mass) 7
    (Or.inl (by simp only [alg]; grind)) (Or.inl rfl)
example : mB.setBodyInertia fixedDisc Ic
    = ((mA.addBody 1 X jfixS5 ⟨B.mass, B.com, Ic, false⟩ "b").1, .ok ()) :=
  setBodyInertia_addBody_fixed rfl mB_add (by decide) A (by rw [mB_fixedBody]; rfl)
    (by rw [mB_fixedBody]; decide) A_symm (Or.inl A_mass) Ic (Or.inl AB_mass) (Or.inl rfl)
example : mB.setBodyCenterOfMass fixedDisc ⟨1, 2, 3⟩
    = ((mA.addBody 1 X jfixS5 ⟨B.mass, ⟨1, 2, 3⟩, B.inertia, false⟩ "b").1, .ok ()) :=
  setBodyCenterOfMass_addBody_fixed rfl mB_add (by decide) A (by rw [mB_fixedBody]; rfl)
    (by rw [mB_fixedBody]; decide) A_symm (Or.inl A_mass) ⟨1, 2, 3⟩ (Or.inl rfl)
end

end Rbdl.C15
