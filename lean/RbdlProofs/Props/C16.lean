import RbdlProofs.Lemmas.Alg16
/-
  C16 — algebra layer: `SpatialTransform`, `SpatialRigidBodyInertia`, spatial cross products,
  elementary rotations and `Quaternion` agree with their 6x6 / 3x3 matrix meaning.

  Every theorem with hypotheses is followed by an `example` that instantiates it on a concrete
  non-trivial instance over `Rat` (`Rbdl.C16.Ex`, a 3-4-5 / (1,2,2,4)/5 rotation with a translation),
  which shows that the hypotheses are satisfiable.
-/
namespace Rbdl.C16
open Lean.Grind Rbdl
variable {α : Type} [CommRing α]

/-! ### `SpatialTransform` as a 6x6 matrix -/

/-- 1 -/
theorem apply_eq_toMatrix (X : XT α) (v : SV α) : X.apply v = X.toMatrix * v := by alg_ext

/-- 2 -/
theorem applyTranspose_eq_toMatrixTranspose (X : XT α) (f : SV α) :
    X.applyTranspose f = X.toMatrixTranspose * f := by alg_ext

/-- 3 -/
theorem toMatrixTranspose_eq (X : XT α) : X.toMatrixTranspose = X.toMatrix.transpose := by alg_ext

/-- 4 -/
theorem applyAdjoint_eq_toMatrixAdjoint (X : XT α) (f : SV α) :
    X.applyAdjoint f = X.toMatrixAdjoint * f := by alg_ext

/-- 5 : `X* = X⁻ᵀ` -/
theorem toMatrixAdjoint_eq (X : XT α) (h : X.E.IsRot) :
    X.toMatrixAdjoint = X.inverse.toMatrix.transpose := by rot_ext h
example : Ex.X.toMatrixAdjoint = Ex.X.inverse.toMatrix.transpose :=
  toMatrixAdjoint_eq _ Ex.X_isRot

/-- 6a -/
theorem inverse_toMatrix_left (X : XT α) (h : X.E.IsRot) :
    X.inverse.toMatrix * X.toMatrix = SM.one := by rot_ext h
/-- 6b -/
theorem inverse_toMatrix_right (X : XT α) (h : X.E.IsRot) :
    X.toMatrix * X.inverse.toMatrix = SM.one := by rot_ext h
/-- 6 -/
theorem inverse_toMatrix (X : XT α) (h : X.E.IsRot) :
    X.inverse.toMatrix * X.toMatrix = SM.one ∧ X.toMatrix * X.inverse.toMatrix = SM.one :=
  ⟨inverse_toMatrix_left X h, inverse_toMatrix_right X h⟩
example : Ex.X.inverse.toMatrix * Ex.X.toMatrix = SM.one ∧
    Ex.X.toMatrix * Ex.X.inverse.toMatrix = SM.one := inverse_toMatrix _ Ex.X_isRot

/-- 7 : the product of transforms is the matrix product (only the right factor must be a rotation) -/
theorem mul_toMatrix (X Y : XT α) (h : Y.E.IsRot) :
    (X * Y).toMatrix = X.toMatrix * Y.toMatrix := by rot_ext h
example : (Ex.X * Ex.Y).toMatrix = Ex.X.toMatrix * Ex.Y.toMatrix := mul_toMatrix _ _ Ex.Y_isRot

/-- 8 -/
theorem mul_apply (X Y : XT α) (h : Y.E.IsRot) (v : SV α) :
    (X * Y).apply v = X.apply (Y.apply v) := by rot_ext h
example (v : SV Rat) : (Ex.X * Ex.Y).apply v = Ex.X.apply (Ex.Y.apply v) :=
  mul_apply _ _ Ex.Y_isRot v

/-- 9a -/
theorem mul_assoc (X Y Z : XT α) : (X * Y) * Z = X * (Y * Z) := by alg_ext
/-- 9b -/
theorem id_mul (X : XT α) : XT.id * X = X := by alg_ext
/-- 9c -/
theorem mul_id (X : XT α) : X * XT.id = X := by alg_ext

/-- 10a -/
theorem inverse_mul_left (X : XT α) (h : X.E.IsRot) : X.inverse * X = XT.id := by rot_ext h
/-- 10b -/
theorem inverse_mul_right (X : XT α) (h : X.E.IsRot) : X * X.inverse = XT.id := by rot_ext h
/-- 10 -/
theorem inverse_mul (X : XT α) (h : X.E.IsRot) :
    X.inverse * X = XT.id ∧ X * X.inverse = XT.id :=
  ⟨inverse_mul_left X h, inverse_mul_right X h⟩
example : Ex.X.inverse * Ex.X = XT.id ∧ Ex.X * Ex.X.inverse = XT.id := inverse_mul _ Ex.X_isRot

/-- 11 -/
theorem inverse_apply (X : XT α) (h : X.E.IsRot) (v : SV α) :
    X.inverse.apply (X.apply v) = v := by rot_ext h
example (v : SV Rat) : Ex.X.inverse.apply (Ex.X.apply v) = v := inverse_apply _ Ex.X_isRot v

/-! ### `SpatialRigidBodyInertia` -/

/-- 12 -/
theorem rbi_mulVec_eq (I : RBI α) (v : SV α) : I * v = I.toMatrix * v := by alg_ext
/-- 13 -/
theorem rbi_add_toMatrix (A B : RBI α) : (A + B).toMatrix = A.toMatrix + B.toMatrix := by alg_ext
/-- 14 -/
theorem rbi_ofMatrix_toMatrix (I : RBI α) : RBI.ofMatrix I.toMatrix = I := by alg_ext

/-- 15 : `X.applyTranspose(rbi) = Xᵀ I X` -/
theorem applyTransposeRBI_toMatrix (X : XT α) (h : X.E.IsRot) (I : RBI α) :
    (X.applyTransposeRBI I).toMatrix = X.toMatrixTranspose * I.toMatrix * X.toMatrix := by
  rot_ext h
example (I : RBI Rat) : (Ex.X.applyTransposeRBI I).toMatrix
    = Ex.X.toMatrixTranspose * I.toMatrix * Ex.X.toMatrix :=
  applyTransposeRBI_toMatrix _ Ex.X_isRot I

/-- 16 : `X.apply(rbi) = X* I X⁻¹` -/
theorem applyRBI_toMatrix (X : XT α) (h : X.E.IsRot) (I : RBI α) :
    (X.applyRBI I).toMatrix = X.toMatrixAdjoint * I.toMatrix * X.inverse.toMatrix := by
  rot_ext h
example (I : RBI Rat) : (Ex.X.applyRBI I).toMatrix
    = Ex.X.toMatrixAdjoint * I.toMatrix * Ex.X.inverse.toMatrix :=
  applyRBI_toMatrix _ Ex.X_isRot I

/-- 17 : equality of all 10 stored fields (`RBI` stores only the lower triangle) -/
theorem applyRBI_applyTransposeRBI (X : XT α) (h : X.E.IsRot) (I : RBI α) :
    X.applyRBI (X.applyTransposeRBI I) = I := by rot_ext h
example (I : RBI Rat) : Ex.X.applyRBI (Ex.X.applyTransposeRBI I) = I :=
  applyRBI_applyTransposeRBI _ Ex.X_isRot I

/-- 18 : blocks as they come out of `createFromMassComInertiaC` (`h = m c`, so the off-diagonal
    blocks are `± m c×`; the upper-left block is `Ic + m c× c×ᵀ`, which needs `Ic` symmetric because
    only its lower triangle is stored). -/
theorem ofMassComInertiaC_toMatrix (m : α) (c : V3 α) (Ic : M3 α) (hs : Ic.transpose = Ic) :
    (RBI.ofMassComInertiaC m c Ic).toMatrix =
      ⟨Ic + m * (M3.skew c * (M3.skew c).transpose), m * M3.skew c, -(m * M3.skew c),
       m * (M3.one : M3 α)⟩ := by
  simp only [M3.transpose, M3.ext_iff] at hs
  alg_ext
example (m : Rat) (c : V3 Rat) : (RBI.ofMassComInertiaC m c Ex.Ic).toMatrix =
    ⟨Ex.Ic + m * (M3.skew c * (M3.skew c).transpose), m * M3.skew c, -(m * M3.skew c),
     m * (M3.one : M3 Rat)⟩ := ofMassComInertiaC_toMatrix m c _ Ex.Ic_symm

/-! ### spatial cross products -/

/-- 19a -/
theorem crossm_eq (a b : SV α) : crossm a b = crossmMat a * b := by alg_ext
/-- 19b -/
theorem crossf_eq (a b : SV α) : crossf a b = crossfMat a * b := by alg_ext
/-- 20 : `crossf v = -(crossm v)ᵀ` (there is no `Neg` on `SM`) -/
theorem crossf_neg_transpose (v : SV α) : crossfMat v + (crossmMat v).transpose = SM.zero := by
  alg_ext
/-- 21 -/
theorem crossm_crossf_dual (a b f : SV α) : (crossm a b).dot f = -(b.dot (crossf a f)) := by
  simp only [alg]; grind

/-- 22 -/
theorem power_invariant (X : XT α) (h : X.E.IsRot) (v f : SV α) :
    (X.apply v).dot (X.applyAdjoint f) = v.dot f := by
  obtain ⟨n0,n1,n2,o01,o02,o12,c00,c01,c02,c10,c11,c12,c20,c21,c22⟩ := h.transpose
  simp only [M3.transpose] at *
  simp only [alg]
  grind
example (v f : SV Rat) : (Ex.X.apply v).dot (Ex.X.applyAdjoint f) = v.dot f :=
  power_invariant _ Ex.X_isRot v f

/-- 23 -/
theorem apply_dot_eq_dot_applyTranspose (X : XT α) (v f : SV α) :
    (X.apply v).dot f = v.dot (X.applyTranspose f) := by
  simp only [alg]; grind

/-! ### elementary rotations -/

/-- 24a -/
theorem Xrot_isRot (c s : α) (a : V3 α) (hcs : c*c + s*s = 1) (ha : a.nrm2 = 1) :
    (Xrot c s a).E.IsRot := by
  simp only [alg] at ha
  isRot_grind
example : (Xrot (4/5 : Rat) (3/5) Ex.ax).E.IsRot := Xrot_isRot _ _ _ Ex.cs_unit Ex.ax_unit

/-- 24b -/
theorem Xrot_x (c s : α) : Xrot c s ⟨1,0,0⟩ = Xrotx c s := by alg_ext
theorem Xrot_y (c s : α) : Xrot c s ⟨0,1,0⟩ = Xroty c s := by alg_ext
theorem Xrot_z (c s : α) : Xrot c s ⟨0,0,1⟩ = Xrotz c s := by alg_ext

/-- 25 -/
theorem Xrotx_isRot (c s : α) (hcs : c*c + s*s = 1) : (Xrotx c s).E.IsRot := by isRot_grind
theorem Xroty_isRot (c s : α) (hcs : c*c + s*s = 1) : (Xroty c s).E.IsRot := by isRot_grind
theorem Xrotz_isRot (c s : α) (hcs : c*c + s*s = 1) : (Xrotz c s).E.IsRot := by isRot_grind
example : (Xrotx (4/5 : Rat) (3/5)).E.IsRot := Xrotx_isRot _ _ Ex.cs_unit
example : (Xroty (4/5 : Rat) (3/5)).E.IsRot := Xroty_isRot _ _ Ex.cs_unit
example : (Xrotz (4/5 : Rat) (3/5)).E.IsRot := Xrotz_isRot _ _ Ex.cs_unit

/-! ### quaternions -/

/-- 26 -/
theorem quat_mul_nrm2 (p q : Quat α) : (Quat.mul p q).nrm2 = p.nrm2 * q.nrm2 := by
  simp only [alg]; grind

/-- 27 -/
theorem quat_toMatrix_isRot (q : Quat α) (h : q.nrm2 = 1) : q.toMatrix.IsRot := by
  simp only [alg] at h
  isRot_grind
example : Ex.p.toMatrix.IsRot := quat_toMatrix_isRot _ Ex.p_unit

/-- 28 : RBDL's `toMatrix` is the *transpose* of the usual rotation matrix of a (Hamilton)
    quaternion, so the matrices multiply in the **opposite** order:
    `toMatrix (p * q) = toMatrix q * toMatrix p`. -/
theorem quat_mul_toMatrix (p q : Quat α) (hp : p.nrm2 = 1) (hq : q.nrm2 = 1) :
    (Quat.mul p q).toMatrix = q.toMatrix * p.toMatrix := by
  simp only [alg] at hp hq
  alg_ext
example : (Quat.mul Ex.p Ex.q).toMatrix = Ex.q.toMatrix * Ex.p.toMatrix :=
  quat_mul_toMatrix _ _ Ex.p_unit Ex.q_unit
/-- the same-order variant `toMatrix (p * q) = toMatrix p * toMatrix q` is false -/
example : (Quat.mul Ex.p Ex.q).toMatrix ≠ Ex.p.toMatrix * Ex.q.toMatrix := by
  intro h; have := congrArg M3.m11 h; simp only [alg] at this; grind

/-- 29 : `rotate` is `E v` with `E = toMatrix q` (not `Eᵀ v`). -/
theorem quat_rotate_eq (q : Quat α) (hq : q.nrm2 = 1) (v : V3 α) :
    q.rotate v = q.toMatrix * v := by
  simp only [alg] at hq
  alg_ext
example (v : V3 Rat) : Ex.p.rotate v = Ex.p.toMatrix * v := quat_rotate_eq _ Ex.p_unit v
/-- the transposed variant is false -/
example : Ex.p.rotate ⟨1, 0, 0⟩ ≠ Ex.p.toMatrix.tmulVec ⟨1, 0, 0⟩ := by
  intro h; have := congrArg V3.y h; simp only [alg] at this; grind

/-- 30 : `q̇` from `omegaToQDot` is tangent to the sphere at `q` -/
theorem omegaToQDot2_tangent (q : Quat α) (o : V3 α) :
    q.x*(q.omegaToQDot2 o).x + q.y*(q.omegaToQDot2 o).y + q.z*(q.omegaToQDot2 o).z
      + q.w*(q.omegaToQDot2 o).w = 0 := by
  simp only [alg]; grind

section field
variable {α : Type} [Field α]

/-- 31 : the rotation `E(t) = toMatrix (q(t))` with `q̇ = omegaToQDot q ω` has body-frame angular
    velocity `ω`, in the project convention `v_J = vee (E Ėᵀ)`: `E Ėᵀ = ω×`.
    (`Quat.jet q d a` is the jet with value `q`, first derivative `d`, arbitrary second derivative
    `a`; `M3.val` / `M3.der1` are the value and the first derivative of a matrix of jets.)

    The hypothesis `2 ≠ 0` is necessary: `omegaToQDot` divides by `2`.  Counterexample without it:
    `α = GF(2)`, where `2 = 0`, `x / 2 = x * 0⁻¹ = 0`, hence `q̇ = 0`, `Ė = 0`, `E Ėᵀ = 0`, but
    `skew ⟨1,0,0⟩` has the entry `m21 = 1 ≠ 0` (take `q = ⟨0,0,0,1⟩`). -/
theorem omegaToQDot_reproduces_omega (h2 : (2:α) ≠ 0) (q : Quat α) (hq : q.nrm2 = 1)
    (o : V3 α) (a : Quat α) :
    (Quat.jet q (q.omegaToQDot o) a).toMatrix.val
      * (Quat.jet q (q.omegaToQDot o) a).toMatrix.der1.transpose = M3.skew o := by
  simp only [alg] at hq
  ext <;> simp only [Quat.jet, M3.val, M3.der1, M3.map, Quat.omegaToQDot, alg, D2.add_x, D2.add_d1,
    D2.sub_x, D2.sub_d1, D2.mul_x, D2.mul_d1, D2.one_x, D2.one_d1, D2.two_x, D2.two_d1] <;> grind
example (o : V3 Rat) (a : Quat Rat) :
    (Quat.jet Ex.p (Ex.p.omegaToQDot o) a).toMatrix.val
      * (Quat.jet Ex.p (Ex.p.omegaToQDot o) a).toMatrix.der1.transpose = M3.skew o :=
  omegaToQDot_reproduces_omega Ex.two_ne _ Ex.p_unit o a
/-- the counterexample over `GF(2)` (hypothesis `2 ≠ 0` dropped), checked -/
example : letI := Ex.gf2
    (⟨0,0,0,1⟩ : Quat (Fin 2)).nrm2 = 1 ∧
    (Quat.jet (⟨0,0,0,1⟩ : Quat (Fin 2)) (Quat.omegaToQDot ⟨0,0,0,1⟩ ⟨1,0,0⟩) ⟨0,0,0,0⟩).toMatrix.val
      * (Quat.jet (⟨0,0,0,1⟩ : Quat (Fin 2)) (Quat.omegaToQDot ⟨0,0,0,1⟩ ⟨1,0,0⟩)
          ⟨0,0,0,0⟩).toMatrix.der1.transpose ≠ M3.skew ⟨1,0,0⟩ := by decide

/-- 32, stronger form: `q` need not be a unit quaternion.

    The hypothesis `4 ≠ 0` is necessary (`fromMatrix` divides by `4 w`).  Counterexample without it:
    `α = GF(2)`, `q = ⟨1,1,0,1⟩` (`nrm2 = 3 = 1`, `w = 1 ≠ 0`): `4 w = 0`, `x / 0 = 0`, so
    `fromMatrixW q.toMatrix 1 = ⟨0,0,0,1⟩ ≠ q`. -/
theorem fromMatrix_toMatrix' (h4 : (4:α) ≠ 0) (q : Quat α) (hw : q.w ≠ 0) :
    Quat.fromMatrixW q.toMatrix q.w = q := by
  have hw4 : q.w * 4 ≠ 0 := fun h => (Field.of_mul_eq_zero h).elim hw h4
  ext <;> simp only [Quat.fromMatrixW, alg] <;> grind

/-- 32 -/
theorem fromMatrix_toMatrix (h4 : (4:α) ≠ 0) (q : Quat α) (_hq : q.nrm2 = 1) (hw : q.w ≠ 0) :
    Quat.fromMatrixW q.toMatrix q.w = q := fromMatrix_toMatrix' h4 q hw
example : Quat.fromMatrixW Ex.p.toMatrix Ex.p.w = Ex.p :=
  fromMatrix_toMatrix Ex.four_ne _ Ex.p_unit Ex.p_w_ne
/-- the counterexample over `GF(2)` (hypothesis `4 ≠ 0` dropped), checked -/
example : letI := Ex.gf2
    (⟨1,1,0,1⟩ : Quat (Fin 2)).nrm2 = 1 ∧ (⟨1,1,0,1⟩ : Quat (Fin 2)).w ≠ 0 ∧
    Quat.fromMatrixW (⟨1,1,0,1⟩ : Quat (Fin 2)).toMatrix 1 ≠ ⟨1,1,0,1⟩ := by decide

/-- 33.
    The hypothesis `4 ≠ 0` is necessary.  Counterexample without it: `α = GF(2)`,
    `M = ⟨0,1,0, 1,0,0, 0,0,1⟩` (satisfies all 15 `IsRot` equations because `-1 = 1`), `w = 1`:
    `1 + trace M = 0 = 4 w w`, `w ≠ 0`, but `fromMatrixW M 1 = ⟨0,0,0,1⟩` whose matrix is `1 ≠ M`. -/
theorem toMatrix_fromMatrix (h4 : (4:α) ≠ 0) (M : M3 α) (w : α) (h : M.IsRot)
    (hw : 4*w*w = 1 + M.trace) (hw0 : w ≠ 0) : (Quat.fromMatrixW M w).toMatrix = M := by
  obtain ⟨n0,n1,n2,o01,o02,o12,c00,c01,c02,c10,c11,c12,c20,c21,c22⟩ := h
  simp only [alg] at hw
  have hw4 : w * 4 ≠ 0 := fun h => (Field.of_mul_eq_zero h).elim hw0 h4
  ext <;> simp only [Quat.fromMatrixW, alg] <;> grind
example : (Quat.fromMatrixW Ex.M (4/5)).toMatrix = Ex.M :=
  toMatrix_fromMatrix Ex.four_ne _ _ Ex.M_isRot Ex.M_trace Ex.w_ne
/-- the counterexample over `GF(2)` (hypothesis `4 ≠ 0` dropped), checked -/
example : letI := Ex.gf2
    (⟨0,1,0, 1,0,0, 0,0,1⟩ : M3 (Fin 2)).IsRot ∧
    4 * (1 : Fin 2) * 1 = 1 + (⟨0,1,0, 1,0,0, 0,0,1⟩ : M3 (Fin 2)).trace ∧ (1 : Fin 2) ≠ 0 ∧
    (Quat.fromMatrixW (⟨0,1,0, 1,0,0, 0,0,1⟩ : M3 (Fin 2)) 1).toMatrix ≠ ⟨0,1,0, 1,0,0, 0,0,1⟩ := by
  refine ⟨?_, ?_, ?_, ?_⟩
  · constructor <;> decide
  all_goals decide

end field
end Rbdl.C16
