import Rbdl
import Rbdl.AlgDriver
import Rbdl.AlgDriver2
import Rbdl.GenUse2
import Rbdl.GeomDriver
import Rbdl.BalDriver
import Rbdl.IterDriver
import Rbdl.LuaDriver
import Rbdl.EnbDriver
import Rbdl.CfDriver
/-
  Line-protocol driver of the executable model (`rbdl_model`): reads the same case file as the
  C++ harness (`harness/driver.cc`) from stdin, executes every operation over exact rationals
  and prints one result line per call.  Protocol: see `tools/PROTOCOL.md`.
-/
open Rbdl

abbrev Q := Rat

/-- decimal / scientific notation as printed by the C++ side (`%.17g`), read exactly -/
def parseDec (s : String) : Option Q :=
  let (mant, ex) : String × Int := match s.splitOn "e" with
    | [m, e] => (m, (e.toInt?).getD 0)
    | _ => (s, 0)
  let neg := mant.startsWith "-"
  let mant := if neg then (mant.drop 1).toString else mant
  let (ip, fp) : String × String := match mant.splitOn "." with
    | [a, b] => (a, b)
    | _ => (mant, "")
  match (ip ++ fp).toNat? with
  | none => none
  | some n =>
    let e10 : Int := ex - fp.length
    let v : Q := if e10 ≥ 0 then (n : Q) * ((10 : Q) ^ e10.toNat) else (n : Q) / ((10 : Q) ^ (-e10).toNat)
    some (if neg then -v else v)

def parseRat (s : String) : Option Q :=
  match s.splitOn "/" with
  | [a] => match a.toInt? with
    | some i => some (i : Q)
    | none => parseDec a
  | [a, b] => do
      let n ← a.toInt?
      let d ← b.toNat?
      if d = 0 then none else some (mkRat n d)
  | _ => none

def showRat (r : Q) : String :=
  if r.den = 1 then toString r.num else s!"{r.num}/{r.den}"

/-- token stream reader -/
structure Toks where
  l : List String
  ok : Bool := true

namespace Toks
def next (t : Toks) : String × Toks :=
  match t.l with
  | [] => ("", { t with ok := false })
  | x :: xs => (x, { t with l := xs })
def rat (t : Toks) : Q × Toks :=
  let (s, t) := t.next
  match parseRat s with
  | some r => (r, t)
  | none => (0, { t with ok := false })
def nat (t : Toks) : Nat × Toks :=
  let (s, t) := t.next
  match s.toNat? with
  | some r => (r, t)
  | none => (0, { t with ok := false })
def v3 (t : Toks) : V3 Q × Toks :=
  let (x, t) := t.rat; let (y, t) := t.rat; let (z, t) := t.rat
  (⟨x, y, z⟩, t)
def m3 (t : Toks) : M3 Q × Toks :=
  let (a, t) := t.v3; let (b, t) := t.v3; let (c, t) := t.v3
  (M3.ofRows a b c, t)
def sv (t : Toks) : SV Q × Toks :=
  let (a, t) := t.v3; let (b, t) := t.v3
  (⟨a, b⟩, t)
def xt (t : Toks) : XT Q × Toks :=
  let (E, t) := t.m3; let (r, t) := t.v3
  (⟨E, r⟩, t)
def rats (t : Toks) (n : Nat) : List Q × Toks :=
  match n with
  | 0 => ([], t)
  | k+1 => let (x, t) := t.rat; let (xs, t) := t.rats k; (x :: xs, t)
def svs (t : Toks) (n : Nat) : List (SV Q) × Toks :=
  match n with
  | 0 => ([], t)
  | k+1 => let (x, t) := t.sv; let (xs, t) := t.svs k; (x :: xs, t)
end Toks

def jtOfName (s : String) : JT :=
  match s with
  | "RevoluteX" => .revoluteX | "RevoluteY" => .revoluteY | "RevoluteZ" => .revoluteZ
  | "Spherical" => .spherical | "EulerZYX" => .eulerZYX | "EulerXYZ" => .eulerXYZ
  | "EulerYXZ" => .eulerYXZ | "EulerZXY" => .eulerZXY | "TranslationXYZ" => .translationXYZ
  | "Fixed" => .fixed | "FloatingBase" => .floatingBase
  | _ => .undefined

inductive JSpec where
  | joint (j : Joint Q)
  | custom (k : CustomKind)

def parseJSpec (t : Toks) : JSpec × Spec.JDesc Q × Toks :=
  let (k, t) := t.next
  match k with
  | "T" =>
    let (n, t) := t.next
    match Joint.ofType (α := Q) (jtOfName n) with
    | some j => (.joint j, .typed (jtOfName n), t)
    | none => (.joint Joint.root, .undefined, { t with ok := false })
  | "R" => let (a, t) := t.v3; (.joint (Joint.revolute a), .revolute a, t)
  | "P" => let (a, t) := t.v3; (.joint (Joint.prismatic a), .prismatic a, t)
  | "A" =>
    let (n, t) := t.nat
    let (as, t) := t.svs n
    if n = 1 then (.joint (Joint.ofAxis (as.headD SV.zero)), .axes as, t)
    else (.joint (Joint.ofAxes as), .axes as, t)
  | "C" =>
    let (n, t) := t.next
    let kind : CustomKind := match n with
      | "revX" => .revX | "eulerZYX" => .eulerZYX | _ => .cyl
    (.custom kind, .custom kind, t)
  | "U" => (.joint Joint.root, .undefined, t)
  | _ => (.joint Joint.root, .undefined, { t with ok := false })

def parseBody (t : Toks) : Body Q × Toks :=
  let (m, t) := t.rat; let (c, t) := t.v3; let (I, t) := t.m3; let (v, t) := t.nat
  (⟨m, c, I, v ≠ 0⟩, t)

structure DS where
  m : ModelS Q
  w : WS Q
  st : QS Q
  qd : VecN Q
  qdd : VecN Q
  tau : VecN Q
  fext : Option (Nat → SV Q)
  caseId : String
  callNo : Nat
  sb : Spec.SB Q
  impl : List String := []
  cset : CSet Q := CSet.empty
  actuation : List Bool := []
  vplus : VecN Q := fun _ => 0
  lastFDC : List String := []
  /-- which of the position / velocity / acceleration caches are known to describe the current
      state (bit 0, 1, 2): set by UK / UKC, cleared by everything that may touch state or workspace -/
  kfresh : Nat := 0
  /-- (id, parent, frame) of every body added on a movable, non-virtual parent: what the queries must return -/
  supplied : List (Nat × Nat × XT Q) := []
  geo : GeomDriver.GS := {}
  lua : Rbdl.LuaDriver.LS := {}

def DS.fresh (id : String) : DS :=
  let m : ModelS Q := ModelS.init
  { m := m, w := initWS m, st := ⟨fun _ => 0, fun _ => 1, fun _ => 0⟩, qd := fun _ => 0,
    qdd := fun _ => 0, tau := fun _ => 0, fext := none, caseId := id, callNo := 0, sb := Spec.SB.init }

/-- keep the workspace entries of existing bodies / custom joints, initialise the new ones -/
def mergeWS (old : WS Q) (nOld cOld fOld : Nat) (ini : WS Q) : WS Q :=
  let mg := fun {β : Type} (o i : Nat → β) (n : Nat) => fun k => if k < n then o k else i k
  { v := mg old.v ini.v nOld, a := mg old.a ini.a nOld, S := mg old.S ini.S nOld
    v_J := mg old.v_J ini.v_J nOld, c_J := mg old.c_J ini.c_J nOld, c := mg old.c ini.c nOld
    f := mg old.f ini.f nOld, pA := mg old.pA ini.pA nOld, U := mg old.U ini.U nOld
    hc := mg old.hc ini.hc nOld, hdotc := mg old.hdotc ini.hdotc nOld
    X_lambda := mg old.X_lambda ini.X_lambda nOld, X_base := mg old.X_base ini.X_base nOld
    IA := mg old.IA ini.IA nOld
    -- `d`, `u` are re-created as zero vectors by every AddBody
    d := ini.d, u := ini.u
    Ic := mg old.Ic ini.Ic nOld, S3 := mg old.S3 ini.S3 nOld, U3 := mg old.U3 ini.U3 nOld
    Dinv3 := mg old.Dinv3 ini.Dinv3 nOld, u3 := mg old.u3 ini.u3 nOld
    cS := mg old.cS ini.cS cOld, cU := mg old.cU ini.cU cOld, cDinv := mg old.cDinv ini.cDinv cOld
    cu := mg old.cu ini.cu cOld, fbBase := mg old.fbBase ini.fbBase fOld }

def vecOfList (l : List Q) : VecN Q := fun i => l.getD i 0

def showList (l : List Q) : String := " ".intercalate (l.map showRat)
def showV3 (v : V3 Q) : String := showList (V3.toList v)
def showSV (v : SV Q) : String := showList (SV.toList v)
def showM3 (A : M3 Q) : String := showList [A.m00, A.m01, A.m02, A.m10, A.m11, A.m12, A.m20, A.m21, A.m22]
def showXT (X : XT Q) : String := showM3 X.E ++ " " ++ showV3 X.r
def showVec (v : VecN Q) (n : Nat) : String := showList ((List.range n).map v)
def showMat (G : MatN Q) (r c : Nat) : String :=
  showList ((List.range r).flatMap (fun i => (List.range c).map (fun j => G i j)))

def errName : Err → String
  | .duplicateName => "duplicateName" | .invalidJoint => "invalidJoint"
  | .zeroMass => "zeroMass" | .fixedSetFrame => "fixedSetFrame"

def showBool (b : Bool) : String := if b then "1" else "0"

/-- structural dump used by C14 / C19: one token list -/
def dumpModel (m : ModelS Q) : String :=
  let ns := (m.names.toArray.qsort (fun a b => a.1 < b.1)).toList
  let sz := m.sz
  let parts : List String := [
    s!"nb {m.bodies.length}", s!"nj {m.joints.length}", s!"dof {m.dofCount}", s!"qs {m.qSize}",
    s!"qds {m.qdotSize}", s!"prev {m.prevBodyId}",
    "lambda " ++ " ".intercalate (m.lambda.map toString),
    "lambdaq " ++ " ".intercalate (m.lambdaQ.map toString),
    "mu " ++ " ".intercalate (m.mu.map (fun l => "[" ++ ",".intercalate (l.map toString) ++ "]")),
    "jt " ++ " ".intercalate (m.joints.map (fun j => toString j.jt.code)),
    "jdof " ++ " ".intercalate (m.joints.map (fun j => toString j.dof)),
    "jq " ++ " ".intercalate (m.joints.map (fun j => toString j.qIndex)),
    "jc " ++ " ".intercalate (m.joints.map (fun j => if j.jt = .custom then toString j.customIdx else "-")),
    "w3 " ++ " ".intercalate (m.w3Index.map toString),
    "ncustom " ++ toString m.customJoints.length,
    "virt " ++ " ".intercalate (m.bodies.map (fun b => showBool b.isVirtual)),
    "nfixed " ++ toString m.fixedBodies.length,
    "fpar " ++ " ".intercalate (m.fixedBodies.map (fun f => toString f.movableParent)),
    "order " ++ " ".intercalate (m.updateOrder.map toString),
    "names " ++ " ".intercalate (ns.map (fun p => p.1 ++ "=" ++ toString p.2)),
    "sizes " ++ " ".intercalate ([sz.v, sz.a, sz.S, sz.v_J, sz.c_J, sz.multdof3_S, sz.multdof3_U,
      sz.multdof3_Dinv, sz.multdof3_u, sz.c, sz.IA, sz.pA, sz.U, sz.d, sz.u, sz.f, sz.Ic, sz.hc,
      sz.hdotc, sz.X_lambda, sz.X_base, m.xT.length, m.I.length, m.lambda.length, m.mu.length,
      m.w3Index.length].map toString)]
  " | ".intercalate parts

/-- numeric dump of the model parameters (bodies, joint axes, frames, inertias) -/
def dumpParams (m : ModelS Q) : String :=
  let bs := m.bodies.map (fun b => showRat b.mass ++ " " ++ showV3 b.com ++ " " ++ showM3 b.inertia)
  let xs := m.xT.map showXT
  let Is := m.I.map (fun I => showList [I.m, I.h.x, I.h.y, I.h.z, I.Ixx, I.Iyx, I.Iyy, I.Izx, I.Izy, I.Izz])
  let ax := m.joints.map (fun j => " ".intercalate (j.axes.map showSV))
  let fs := m.fixedBodies.map (fun f => showRat f.mass ++ " " ++ showV3 f.com ++ " " ++ showM3 f.inertia
              ++ " " ++ showXT f.parentTransform)
  " ".intercalate (bs ++ xs ++ Is ++ ax ++ fs ++ [showV3 m.gravity])

def parseQEntries (t : Toks) (n : Nat) : (List (Q × Q × Q)) × Toks :=
  match n with
  | 0 => ([], t)
  | k+1 =>
    let (s, t) := t.next
    let e : Option (Q × Q × Q) := match s.splitOn ":" with
      | ["x", v] => (parseRat v).map (fun r => (r, (1 : Q), (0 : Q)))
      | ["a", c, s', q] => do
          let c ← parseRat c; let s' ← parseRat s'; let q ← parseRat q
          pure (q, c, s')
      | _ => none
    match e with
    | none => ([], { t with ok := false })
    | some e => let (es, t) := parseQEntries t k; (e :: es, t)

def DS.specModel (d : DS) : Spec.SModel Q := Spec.SModel.finalize d.sb.M
def DS.specState (d : DS) : Spec.State Q := ⟨d.st.q, d.st.c, d.st.s, d.qd, d.qdd⟩
def DS.fextFn (d : DS) : Nat → SV Q := match d.fext with | some f => f | none => fun _ => SV.zero

def out (d : DS) (name : String) (body : String) : DS × String :=
  ({ d with callNo := d.callNo + 1 }, s!"{d.caseId}.{d.callNo} {name} {body}")

/-- append a second line (spec / certificate) with the same call number -/
def also (r : DS × String) (d0 : DS) (name : String) (body : String) : DS × String :=
  (r.1, r.2 ++ s!"\n{d0.caseId}.{d0.callNo} {name} {body}")

def implVec (d : DS) : List Q := d.impl.map (fun s => (parseRat s).getD 0)

def ginit (d : DS) (t : Toks) : MatN Q × Toks :=
  let (k, t) := t.next
  if k = "z" then (fun _ _ => 0, t)
  else let (seed, t) := t.nat; (fun r c => pz seed 40 r c, t)


/-- fixed-point (2^-100) Taylor evaluation of (cos x, sin x) for |x| of moderate size -/
def cosSinApprox (x : Q) : Q × Q :=
  let scale : Nat := 2 ^ 100
  let rnd := fun (r : Q) => mkRat ((r * scale).floor) scale
  -- range reduction with a 60-digit value of 2π (the iterative solvers may return many turns)
  let twoPi : Q := mkRat 6283185307179586476925286766559005768394338798750211641949889 (10 ^ 60)
  let k := (x / twoPi + 1 / 2).floor
  let x := rnd (x - twoPi * k)
  let x2 := rnd (x * x)
  -- sum_{k} (-1)^k x^{2k}/(2k)!  and  x^{2k+1}/(2k+1)!
  let (c, s, _, _) := (List.range 40).foldl (fun (acc : Q × Q × Q × Q) k =>
    let (c, s, tc, ts) := acc
    let c := c + tc
    let s := s + ts
    let kk : Q := (k : Nat)
    let tc' := rnd (-(tc * x2) / ((2 * kk + 1) * (2 * kk + 2)))
    let ts' := rnd (-(ts * x2) / ((2 * kk + 2) * (2 * kk + 3)))
    (c, s, tc', ts')) (0, 0, 1, x)
  (c, s)

def matVec (A : List (List Q)) (x : Nat → Q) : List Q :=
  A.map (fun row => (zipIdx row).foldl (fun acc p => acc + p.1 * x p.2) 0)
def matTVec (A : List (List Q)) (nv : Nat) (l : Nat → Q) : List Q :=
  (List.range nv).map (fun j => (zipIdx A).foldl (fun acc p => acc + p.1.getD j 0 * l p.2) 0)
def listAdd (a b : List Q) : List Q := (a.zip b).map (fun p => p.1 + p.2)
def listSub (a b : List Q) : List Q := (a.zip b).map (fun p => p.1 - p.2)
def hMat (Hs : List Q) (nd : Nat) : List (List Q) :=
  (List.range nd).map (fun i => (List.range nd).map (fun j => Hs.getD (i * nd + j) 0))

/-- spec-side quantities of the constrained system at the current state -/
structure CSpec where
  H : List (List Q)
  N : List Q
  G : List (List Q)
  gamma : List Q
  phi : List (Q × Q × Q)

def DS.cspec (d : DS) : CSpec :=
  let M := d.specModel; let st := d.specState
  let nd := d.m.dofCount
  { H := hMat (Spec.inertiaMatrix M st) nd
    N := Spec.newtonEulerTau M { st with qdd := fun _ => 0 } d.fextFn
    G := Spec.constraintJacobian M st d.cset
    gamma := Spec.gammaSpec M st d.cset
    phi := Spec.phiJets M st d.cset }

def showMatL (A : List (List Q)) : String := showList A.flatten

/-- elimination with full pivoting: min |pivot| / max |pivot| over the first `k` steps (0 if a pivot vanishes) -/
def pivotRatio (absQ : Q → Q) (A : LMat Q) (k : Nat) : Q :=
  let rec go (fuel : Nat) (M : LMat Q) (mn mx : Q) (first : Bool) : Q :=
    match fuel with
    | 0 => if mx = 0 then 0 else mn / mx
    | fuel+1 =>
      -- largest entry
      let best := (zipIdx M).foldl (fun (b : Q × Nat × Nat) pr =>
        (zipIdx pr.1).foldl (fun (b : Q × Nat × Nat) pc => if absQ pc.1 > b.1 then (absQ pc.1, pr.2, pc.2) else b) b) (0, 0, 0)
      if best.1 = 0 then 0 else
      let prow := M.getD best.2.1 []
      let pv := prow.getD best.2.2 0
      let rest := (zipIdx M).filterMap (fun pr => if pr.2 = best.2.1 then none else
        some (rowSub pr.1 prow (pr.1.getD best.2.2 0 / pv)))
      go fuel rest (if first then best.1 else (if best.1 < mn then best.1 else mn)) (if best.1 > mx then best.1 else mx) false
  go k A 0 0 true

def doCsCall (d : DS) (name : String) (t : Toks) : Option (DS × String) :=
  let m := d.m
  let nd := m.dofCount
  let nc := d.cset.size
  let iv := implVec d
  let ivf := fun (i : Nat) => iv.getD i 0
  match name with
  | "CJ" =>
    let (u, t) := t.nat; let (sp, _) := t.nat
    let (w, G) := calcConstraintsJacobian m d.w d.st d.cset (fun _ _ => 0) (u ≠ 0)
    let r := out { d with w := w } name (showMat G nc nd)
    some (if sp ≠ 0 then also r d "CJ.spec" (showMatL (Spec.constraintJacobian d.specModel d.specState d.cset)) else r)
  | "CPE" =>
    let (u, t) := t.nat; let (sp, _) := t.nat
    let (w, e) := calcConstraintsPositionError m d.w d.st d.cset (fun _ => 0) (u ≠ 0)
    let r := out { d with w := w } name (showVec e nc)
    let phi := Spec.phiJets d.specModel d.specState d.cset
    let spec := (zipIdx phi).map (fun p =>
      match d.cset.cs.find? (fun c => c.row ≤ p.2 ∧ p.2 < c.row + c.T.length) with
      | some c => if c.ctype = .contact then 0 else p.1.1
      | none => 0)
    some (if sp ≠ 0 then also r d "CPE.spec" (showList spec) else r)
  | "CVE" =>
    let (u, t) := t.nat; let (sp, _) := t.nat
    let (w, _, e) := calcConstraintsVelocityError m d.w d.st d.qd d.cset (fun _ _ => 0) (fun _ => 0) (u ≠ 0)
    let r := out { d with w := w } name (showVec e nc)
    let phi := Spec.phiJets d.specModel d.specState d.cset
    some (if sp ≠ 0 then also r d "CVE.spec" (showList (phi.map (·.2.1))) else r)
  | "CSV" =>
    let (u, t) := t.nat; let (sp, _) := t.nat
    let (w, sv) := calcConstrainedSystemVariables m d.w d.st d.qd d.cset (u ≠ 0) d.fext
    let r := out { d with w := w } name (" ".intercalate [showVec sv.gamma nc, showVec sv.err nc,
      showVec sv.errd nc, showVec sv.C nd, showMat sv.G nc nd, showMat sv.H nd nd])
    if sp = 0 then some r else
    let cs := d.cspec
    let errS := (zipIdx cs.phi).map (fun p =>
      match d.cset.cs.find? (fun c => c.row ≤ p.2 ∧ p.2 < c.row + c.T.length) with
      | some c => if c.ctype = .contact then 0 else p.1.1
      | none => 0)
    some (also r d "CSV.spec" (" ".intercalate [showList cs.gamma, showList errS,
      showList (cs.phi.map (·.2.1)), showList cs.N, showMatL cs.G, showMatL cs.H]))
  | "FDC" =>
    let r := out d name (" ".intercalate d.impl)
    if d.impl.isEmpty then some r else
    let cs := d.cspec
    let qdd := ivf
    let lam := fun i => ivf (nd + i)
    let lhs1 := listSub (listAdd (matVec cs.H qdd) cs.N) (matTVec cs.G nd lam)
    let r := also (also r d "FDC.eom.lhs" (showList lhs1)) d "FDC.eom.rhs" (showVec d.tau nd)
    let r := also (also r d "FDC.acc.lhs" (showList (matVec cs.G qdd))) d "FDC.acc.rhs" (showList cs.gamma)
    let r := if d.lastFDC.headD "" ≠ "FDC" then r else
      also (also r d "FDC.agree.lhs" (" ".intercalate d.impl)) d "FDC.agree.rhs" (" ".intercalate d.lastFDC.tail)
    some ({ r.1 with lastFDC := "FDC" :: d.impl }, r.2)
  | "CF" | "CI" =>
    let (w, ls) := CfDriver.run parseRat m d.w d.st d.qd d.cset d.impl d.lastFDC name t.l
    some (ls.tail.foldl (fun r p => also r d p.1 p.2) (out { d with w := w } name (ls.headD ("", "")).2))
  | "IMP" =>
    let r := out d name (" ".intercalate d.impl)
    if d.impl.isEmpty then some r else
    let cs := d.cspec
    let qp := ivf
    let lam := fun i => ivf (nd + i)
    let dq := fun i => qp i - d.qd i
    let lhs1 := listAdd (matVec cs.H dq) (matTVec cs.G nd lam)
    let r := also (also r d "IMP.mom.lhs" (showList lhs1)) d "IMP.mom.rhs" (showList (lhs1.map (fun _ => 0)))
    let r := also (also r d "IMP.vel.lhs" (showList (matVec cs.G qp))) d "IMP.vel.rhs" (showVec d.vplus nc)
    let ke := fun (v : Nat → Q) => (zipIdx (matVec cs.H v)).foldl (fun acc p => acc + p.1 * v p.2) 0 / 2
    let allZero := (List.range nc).all (fun i => d.vplus i = 0)
    let gain := ke qp - ke d.qd
    let r := if allZero then
        also (also r d "IMP.ke.lhs" (showRat (if gain > 0 then gain else 0))) d "IMP.ke.rhs" "0"
      else r
    -- a pre-impact velocity that is already feasible is returned unchanged with zero impulses
    let feasible := ((matVec cs.G d.qd).zip (List.range nc)).all (fun p => p.1 = d.vplus p.2)
    let r := if feasible then
        also (also r d "IMP.same.lhs" (" ".intercalate d.impl)) d "IMP.same.rhs"
          (showVec d.qd nd ++ " " ++ showList ((List.range nc).map (fun _ => 0)))
      else r
    let r := if d.lastFDC.headD "" ≠ "IMP" then r else
      also (also r d "IMP.agree.lhs" (" ".intercalate d.impl)) d "IMP.agree.rhs" (" ".intercalate d.lastFDC.tail)
    some ({ r.1 with lastFDC := "IMP" :: d.impl }, r.2)
  | "IDC" | "IDCR" =>
    let r := out d name (" ".intercalate d.impl)
    if d.impl.isEmpty then some r else
    let cs := d.cspec
    let unact0 := (zipIdx d.actuation).filterMap (fun p => if p.1 then none else some p.2)
    let GPT0 : LMat Q := cs.G.map (fun row => unact0.map (fun j => row.getD j 0))
    -- the exact operator is specified only for systems reported as fully actuated
    if name = "IDC" && lmRank GPT0 ≠ unact0.length then some r else
    let qdd := ivf
    let ta := fun i => ivf (nd + i)
    let lam := fun i => ivf (2 * nd + i)
    let lhs1 := listSub (listAdd (matVec cs.H qdd) cs.N) (matTVec cs.G nd lam)
    let r := also (also r d (name ++ ".eom.lhs") (showList lhs1)) d (name ++ ".eom.rhs") (showVec ta nd)
    let r := also (also r d (name ++ ".acc.lhs") (showList (matVec cs.G qdd))) d (name ++ ".acc.rhs") (showList cs.gamma)
    let unact := (zipIdx d.actuation).filterMap (fun p => if p.1 then none else some p.2)
    let act := (zipIdx d.actuation).filterMap (fun p => if p.1 then some p.2 else none)
    let r := also (also r d (name ++ ".unact.lhs") (showList (unact.map ta))) d (name ++ ".unact.rhs") (showList (unact.map (fun _ => 0)))
    let r := if name = "IDC" then
        also (also r d "IDC.track.lhs" (showList (act.map qdd))) d "IDC.track.rhs" (showList (act.map d.qdd))
      else r
    some r
  | "FULLACT" =>
    let r := out d name (" ".intercalate d.impl)
    let G := Spec.constraintJacobian d.specModel d.specState d.cset
    let unact := (zipIdx d.actuation).filterMap (fun p => if p.1 then none else some p.2)
    let GPT : LMat Q := G.map (fun row => unact.map (fun j => row.getD j 0))
    -- The C++ decides the rank numerically (FullPivHouseholderQR, threshold ~ 3 eps): the decision is
    -- only determined where the exact answer has a margin.  Full rank with pivot ratio >= 1e-6 -> 1;
    -- fewer rows than unactuated coordinates, or an exactly zero column (a coordinate that does not
    -- move any constraint: structural zeros are exact in the C++ too) -> 0; an exactly singular matrix
    -- without such a reason is decided by rounding and is not compared.
    let nu := unact.length
    let absQ := fun (x : Q) => if x < 0 then -x else x
    let zeroCol := (List.range nu).any (fun j => GPT.all (fun row => row.getD j 0 = 0))
    let ratio := pivotRatio absQ GPT nu
    if GPT.length < nu || zeroCol then some (also r d "FULLACT.spec" "0")
    else if ratio * 1000000 ≥ 1 then some (also r d "FULLACT.spec" "1")
    else some (also r d "FULLACT.margin.info" (showRat ratio))
  | "CAQD" =>
    let r := out d name (" ".intercalate d.impl)
    if d.impl.isEmpty then some r else
    let (wts, _) := t.rats nd
    let G := Spec.constraintJacobian d.specModel d.specState d.cset
    let r := also (also r d "CAQD.vel.lhs" (showList (matVec G ivf))) d "CAQD.vel.rhs" (showList ((List.range nc).map (fun _ => 0)))
    -- optimality: W (qd - qd0) is a combination of the rows of G
    let res : List Q := (List.range nd).map (fun i => wts.getD i 0 * (ivf i - d.qd i))
    let GGt : LMat Q := G.map (fun a => G.map (fun b => lvDot a b))
    let rhs : List Q := G.map (fun a => -(lvDot a res))
    let mu := (lmSolve GGt rhs).getD []
    let lhs := listAdd res (matTVec G nd (fun i => mu.getD i 0))
    some (also (also r d "CAQD.opt.lhs" (showList lhs)) d "CAQD.opt.rhs" (showList (lhs.map (fun _ => 0))))
  | "CAQ" =>
    let r := out d name (" ".intercalate d.impl)
    if d.impl.isEmpty then some r else
    if d.impl.headD "0" ≠ "1" then some r else
    -- success reported: independently evaluate the constraint position error and the quaternion norms
    let Qv := (d.impl.drop 1).map (fun s => (parseRat s).getD 0)
    let cs := Qv.map cosSinApprox
    let st : Spec.State Q := ⟨fun i => Qv.getD i 0, fun i => (cs.getD i (1, 0)).1, fun i => (cs.getD i (1, 0)).2,
                               fun _ => 0, fun _ => 0⟩
    let M := d.specModel
    let phi := (Spec.phiJets M st d.cset).map (·.1)
    let phiC := (zipIdx phi).map (fun p =>
      match d.cset.cs.find? (fun c => c.row ≤ p.2 ∧ p.2 < c.row + c.T.length) with
      | some c => if c.ctype = .contact then 0 else p.1
      | none => 0)
    let r := also (also r d "CAQ.err.lhs" (showList phiC)) d "CAQ.err.rhs" (showList (phiC.map (fun _ => 0)))
    let qn := M.nodes.filterMap (fun nd => if Spec.isQuatNode nd then
        some (let k := nd.qIdx; st.q k * st.q k + st.q (k+1) * st.q (k+1) + st.q (k+2) * st.q (k+2) + st.q nd.wIdx * st.q nd.wIdx)
      else none)
    some (also (also r d "CAQ.unit.lhs" (showList qn)) d "CAQ.unit.rhs" (showList (qn.map (fun _ => 1))))
  | "IK1" =>
    let r := out d name (" ".intercalate d.impl)
    if d.impl.isEmpty then some r else
    let nonfinite := (d.impl.filter (fun s => (parseRat s).isNone)).length
    let r := also (also r d "IK1.finite.lhs" (toString nonfinite)) d "IK1.finite.rhs" "0"
    let (stepTol, t) := t.rat; let (_, t) := t.rat; let (_, t) := t.nat; let (np, t) := t.nat
    if d.impl.headD "0" ≠ "1" || nonfinite ≠ 0 then some r else
    let Qv := (d.impl.drop 1).map (fun s => (parseRat s).getD 0)
    let cs := Qv.map cosSinApprox
    let st : Spec.State Q := ⟨fun i => Qv.getD i 0, fun i => (cs.getD i (1, 0)).1, fun i => (cs.getD i (1, 0)).2,
                               fun _ => 0, fun _ => 0⟩
    let M := d.specModel
    let (res2, _) := (List.range np).foldl (fun (acc : Q × Toks) _ =>
      let (a, t) := acc
      let (b, t) := t.nat; let (p, t) := t.v3; let (tg, t) := t.v3
      let e := tg - Spec.bodyToBase M st b p
      (a + e.dot e, t)) (0, t)
    some (also r d "IK1.res.info" (showRat res2 ++ " " ++ showRat (stepTol * stepTol)))
  | "IK2" | "IK2c" =>
    let r := out d name (" ".intercalate d.impl)
    if d.impl.isEmpty then some r else
    let nonfinite := (d.impl.filter (fun s => (parseRat s).isNone)).length
    let r := also (also r d "IK2.finite.lhs" (toString nonfinite)) d "IK2.finite.rhs" "0"
    let sizeOk := d.impl.length = 7 + m.qSize
    let r := also (also r d "IK2.size.lhs" (if sizeOk then "1" else "0")) d "IK2.size.rhs" "1"
    if nonfinite ≠ 0 || !sizeOk then some r else
    let iv := d.impl.map (fun s => (parseRat s).getD 0)
    let ok := d.impl.headD "0" = "1"
    let en := iv.getD 2 0; let ok2 := iv.getD 4 0; let en2 := iv.getD 5 0; let dq2 := iv.getD 6 0
    let (_, t) := t.rat; let (_, t) := t.nat; let (stepTol, t) := t.rat; let (cTol, t) := t.rat
    let (ncons, t) := t.nat
    if !ok then some r else
    let Qv := iv.drop 7
    let cs := Qv.map cosSinApprox
    let st : Spec.State Q := ⟨fun i => Qv.getD i 0, fun i => (cs.getD i (1, 0)).1, fun i => (cs.getD i (1, 0)).2,
                               fun _ => 0, fun _ => 0⟩
    let M := d.specModel
    let sq := fun (x : Q) => x * x
    let (res2, oriMax, allPoint, _) := (List.range ncons).foldl (fun (acc : Q × Q × Bool × Toks) _ =>
      let (a, om, ap, t) := acc
      let (kind, t) := t.next; let (b, t) := t.nat; let (p, t) := t.v3; let (tg, t) := t.v3
      let (R, t) := t.m3; let (wgt, t) := t.rat
      let e := tg - Spec.bodyToBase M st b p
      let pos2 := match kind with
        | "p" | "f" => wgt * wgt * e.dot e
        | "xy" => wgt * wgt * (sq e.x + sq e.y)
        | "z" => wgt * wgt * sq e.z
        | _ => 0
      let O := Spec.orientation M st b
      let diff := [O.m00 - R.m00, O.m01 - R.m01, O.m02 - R.m02, O.m10 - R.m10, O.m11 - R.m11, O.m12 - R.m12,
                   O.m20 - R.m20, O.m21 - R.m21, O.m22 - R.m22]
      let om' := if kind = "o" || kind = "f" then diff.foldl (fun mx x => if sq x > mx then sq x else mx) om else om
      (a + pos2, om', ap && (kind = "p" || kind = "xy" || kind = "z"), t)) (0, 0, true, t)
    let r := if allPoint then
        also (also r d "IK2.res.lhs" (showRat res2)) d "IK2.res.rhs" (showRat (en * en))
      else
        also (also r d "IK2.res.lhs" (showRat (if res2 > en * en then res2 - en * en else 0) ++ " " ++
              showRat (if en < cTol then oriMax else 0))) d "IK2.res.rhs" "0 0"
    let r := if ok2 = 0 then
        also (also r d "IK2.tol.lhs" (showRat (if en2 < cTol then en2 else cTol) ++ " " ++
              showRat (if dq2 < stepTol then dq2 else stepTol))) d "IK2.tol.rhs" (showRat cTol ++ " " ++ showRat stepTol)
      else if ok2 = 1 then also (also r d "IK2.tol.lhs" "1") d "IK2.tol.rhs" "0"
      else r
    some r
  | _ => none


def doIterCall (d : DS) (name : String) (t : Toks) : Option (DS × String) :=
  let alsoAll := fun (r : DS × String) (ls : List (String × String)) => ls.foldl (fun r p => also r d p.1 p.2) r
  match name with
  | "IK1T" => some (alsoAll (out d name (" ".intercalate d.impl)) (IterDriver.ik1Lines parseRat d.m d.w d.impl t.l))
  | "IK2T" => some (alsoAll (out d name (" ".intercalate d.impl)) (IterDriver.ik2Lines parseRat d.m d.w d.impl t.l))
  | "CAQT" => some (alsoAll (out d name (" ".intercalate d.impl)) (IterDriver.caqLines parseRat d.m d.w d.cset d.impl t.l))
  | "CAQD" =>
    (doCsCall d name t).map (fun r =>
      if d.impl.isEmpty then r else
      let (wts, _) := t.rats d.m.dofCount
      match IterDriver.caqdModel d.m d.w d.st.q d.qd d.cset wts with
      | some qd => alsoAll r (IterDriver.cert "CAQD.model" (" ".intercalate d.impl) (showList qd))
      | none => also r d "CAQD.model.info" "singular")
  | _ => none

def doCall (d : DS) (t : Toks) : DS × String :=
  let (name, t) := t.next
  match doIterCall d name t with
  | some r => r
  | none =>
  match doCsCall d name t with
  | some r => r
  | none =>
  let m := d.m
  let nd := m.dofCount
  match name with
  | "ID" =>
    let (w, tau) := inverseDynamics m d.w d.st d.qd d.qdd (fun _ => 0) d.fext
    let spec := Spec.newtonEulerTau d.specModel d.specState d.fextFn
    let (d', s) := out { d with w := w } name (showVec tau nd)
    (d', s ++ s!"\n{d.caseId}.{d.callNo} ID.spec {showList spec}")
  | "NE" =>
    let (w, tau) := nonlinearEffects m d.w d.st d.qd (fun _ => 0) d.fext
    let sst : Spec.State Q := { d.specState with qdd := fun _ => 0 }
    also (out { d with w := w } name (showVec tau nd)) d "NE.spec"
      (showList (Spec.newtonEulerTau d.specModel sst d.fextFn))
  | "FD" =>
    let (w, qdd) := forwardDynamics m d.w d.st d.qd d.tau (fun _ => 0) d.fext
    let r := out { d with w := w } name (showVec qdd nd)
    if d.impl.isEmpty then r else
    let sst : Spec.State Q := { d.specState with qdd := vecOfList (implVec d) }
    also (also r d "FD.lhs" (showList (Spec.newtonEulerTau d.specModel sst d.fextFn))) d "FD.rhs" (showVec d.tau nd)
  | "FDL" =>
    -- Eigen solve: certificate mode only
    let r := out d name (" ".intercalate d.impl)
    if d.impl.isEmpty then r else
    let sst : Spec.State Q := { d.specState with qdd := vecOfList (implVec d) }
    also (also r d "FDL.lhs" (showList (Spec.newtonEulerTau d.specModel sst d.fextFn))) d "FDL.rhs" (showVec d.tau nd)
  | "LTL" =>
    -- factorisation needs square roots: certificate mode (L^T L = H, H x = tau)
    let r := out d name (" ".intercalate d.impl)
    if d.impl.isEmpty then r else
    let v := implVec d
    let L := fun (i j : Nat) => if j ≤ i then v.getD (i * nd + j) 0 else 0
    let x := fun (i : Nat) => v.getD (nd * nd + i) 0
    let Hs := Spec.inertiaMatrix d.specModel d.specState
    let LtL := (List.range nd).flatMap (fun i => (List.range nd).map (fun j =>
      (List.range nd).foldl (fun acc k => acc + L k i * L k j) 0))
    let Hx := (List.range nd).map (fun i => (List.range nd).foldl (fun acc j => acc + Hs.getD (i * nd + j) 0 * x j) 0)
    let upper := (List.range nd).flatMap (fun i => (List.range nd).filterMap (fun j =>
      if i < j then some (v.getD (i * nd + j) 0) else none))
    also (also (also (also (also (also r d "LTL.lhs" (showList LtL)) d "LTL.rhs" (showList Hs))
      d "LTLx.lhs" (showList Hx)) d "LTLx.rhs" (showVec d.tau nd))
      d "LTLu.lhs" (showList upper)) d "LTLu.rhs" (showList (upper.map (fun _ => 0)))
  | "CRBA" =>
    let (u, _) := t.nat
    let (w, H) := crba m d.w d.st (fun _ _ => 0) (u ≠ 0)
    let r := out { d with w := w } name (showMat H nd nd)
    if u ≠ 0 then also r d "CRBA.spec" (showList (Spec.inertiaMatrix d.specModel d.specState)) else r
  | "MINV" =>
    let (u, _) := t.nat
    let (w, qdd) := calcMInvTimesTau m d.w d.st d.tau (fun _ => 0) (u ≠ 0)
    let r := out { d with w := w } name (showVec qdd nd)
    if d.impl.isEmpty || u = 0 then r else
    let Hs := Spec.inertiaMatrix d.specModel d.specState
    let x := implVec d
    let Hx := (List.range nd).map (fun i => (List.range nd).foldl (fun acc j => acc + Hs.getD (i * nd + j) 0 * x.getD j 0) 0)
    also (also r d "MINV.lhs" (showList Hx)) d "MINV.rhs" (showVec d.tau nd)
  | "UK" =>
    out { d with w := updateKinematics m d.w d.st d.qd d.qdd } name ""
  | "UKC" =>
    let (mask, _) := t.nat
    let w := updateKinematicsCustom m d.w (if mask % 2 = 1 then some d.st else none)
      (if (mask / 2) % 2 = 1 then some d.qd else none) (if (mask / 4) % 2 = 1 then some d.qdd else none)
    out { d with w := w } name ""
  | "B2B" =>
    let (id, t) := t.nat; let (p, t) := t.v3; let (u, _) := t.nat
    let (w, r) := calcBodyToBaseCoordinates m d.w d.st id p (u ≠ 0)
    let o := out { d with w := w } name (showV3 r)
    if (u ≠ 0 || d.kfresh / 1 % 2 = 1) then also o d "B2B.spec" (showV3 (Spec.bodyToBase d.specModel d.specState id p)) else o
  | "BASE2B" =>
    let (id, t) := t.nat; let (p, t) := t.v3; let (u, _) := t.nat
    let (w, r) := calcBaseToBodyCoordinates m d.w d.st id p (u ≠ 0)
    let o := out { d with w := w } name (showV3 r)
    if (u ≠ 0 || d.kfresh / 1 % 2 = 1) then also o d "BASE2B.spec" (showV3 (Spec.baseToBody d.specModel d.specState id p)) else o
  | "ORI" =>
    let (id, t) := t.nat; let (u, _) := t.nat
    let (w, r) := calcBodyWorldOrientation m d.w d.st id (u ≠ 0)
    let o := out { d with w := w } name (showM3 r)
    if (u ≠ 0 || d.kfresh / 1 % 2 = 1) then also o d "ORI.spec" (showM3 (Spec.orientation d.specModel d.specState id)) else o
  | "PJ" =>
    let (id, t) := t.nat; let (p, t) := t.v3; let (u, t) := t.nat; let zeroInit := t.l.headD "" = "z"
    let (G, _) := ginit d t
    let (w, G) := calcPointJacobian m d.w d.st id p G (u ≠ 0)
    let o := out { d with w := w } name (showMat G 3 m.qdotSize)
    if (u ≠ 0 || d.kfresh / 1 % 2 = 1) && zeroInit then also o d "PJ.spec" (showList (Spec.pointJacobian d.specModel d.specState id p)) else o
  | "PJ6" =>
    let (id, t) := t.nat; let (p, t) := t.v3; let (u, t) := t.nat; let zeroInit := t.l.headD "" = "z"
    let (G, _) := ginit d t
    let (w, G) := calcPointJacobian6D m d.w d.st id p G (u ≠ 0)
    let o := out { d with w := w } name (showMat G 6 m.qdotSize)
    if (u ≠ 0 || d.kfresh / 1 % 2 = 1) && zeroInit then also o d "PJ6.spec" (showList (Spec.pointJacobian6D d.specModel d.specState id p)) else o
  | "BSJ" =>
    let (id, t) := t.nat; let (u, t) := t.nat; let zeroInit := t.l.headD "" = "z"
    let (G, _) := ginit d t
    let (w, G) := calcBodySpatialJacobian m d.w d.st id G (u ≠ 0)
    let o := out { d with w := w } name (showMat G 6 m.qdotSize)
    if (u ≠ 0 || d.kfresh / 1 % 2 = 1) && zeroInit then also o d "BSJ.spec" (showList (Spec.bodySpatialJacobian d.specModel d.specState id)) else o
  | "PV" =>
    let (id, t) := t.nat; let (p, t) := t.v3; let (u, _) := t.nat
    let (w, r) := calcPointVelocity m d.w d.st d.qd id p (u ≠ 0)
    let o := out { d with w := w } name (showV3 r)
    if (u ≠ 0 || d.kfresh / 2 % 2 = 1) then also o d "PV.spec" (showV3 (Spec.pointVelocity d.specModel d.specState id p)) else o
  | "PV6" =>
    let (id, t) := t.nat; let (p, t) := t.v3; let (u, _) := t.nat
    let (w, r) := calcPointVelocity6D m d.w d.st d.qd id p (u ≠ 0)
    let o := out { d with w := w } name (showSV r)
    if (u ≠ 0 || d.kfresh / 2 % 2 = 1) then also o d "PV6.spec" (showSV (Spec.pointVelocity6D d.specModel d.specState id p)) else o
  | "PA" =>
    let (id, t) := t.nat; let (p, t) := t.v3; let (u, _) := t.nat
    let (w, r) := calcPointAcceleration m d.w d.st d.qd d.qdd id p (u ≠ 0)
    let o := out { d with w := w } name (showV3 r)
    if (u ≠ 0 || d.kfresh / 4 % 2 = 1) then also o d "PA.spec" (showV3 (Spec.pointAcceleration d.specModel d.specState id p)) else o
  | "PA6" =>
    let (id, t) := t.nat; let (p, t) := t.v3; let (u, _) := t.nat
    let (w, r) := calcPointAcceleration6D m d.w d.st d.qd d.qdd id p (u ≠ 0)
    let o := out { d with w := w } name (showSV r)
    if (u ≠ 0 || d.kfresh / 4 % 2 = 1) then also o d "PA6.spec" (showSV (Spec.pointAcceleration6D d.specModel d.specState id p)) else o
  | "COM" =>
    let (u, _) := t.nat
    let (w, c) := calcCenterOfMass m d.w d.st d.qd (some d.qdd) true (u ≠ 0)
    let o := out { d with w := w } name (" ".intercalate [showRat c.mass, showV3 c.com, showV3 c.comVel,
      showV3 c.comAcc, showV3 c.angMom, showV3 c.angMomDot])
    if u = 0 then o else
    let M := d.specModel; let st := d.specState
    let L := Spec.angularMomentum M st
    also o d "COM.spec" (" ".intercalate [showRat (Spec.totalMass M), showV3 (Spec.com M st),
      showV3 (Spec.comVelocity M st), showV3 (Spec.comAcceleration M st), showV3 L.1, showV3 L.2])
  | "COMm" =>
    -- a subset of the optional outputs: each requested output has the value of the full call
    let (mask, t) := t.nat; let (u, _) := t.nat
    let bit := fun (k : Nat) => (mask / 2 ^ k) % 2 = 1
    let (w, c) := calcCenterOfMass m d.w d.st d.qd (some d.qdd) true (u ≠ 0)
    let sel := fun (xs : List (Bool × String)) => " ".intercalate (xs.filterMap (fun p => if p.1 then some p.2 else none))
    let o := out { d with w := w } name (sel [(true, showRat c.mass), (true, showV3 c.com), (bit 0, showV3 c.comVel),
      (bit 1, showV3 c.comAcc), (bit 2, showV3 c.angMom), (bit 3, showV3 c.angMomDot)])
    if u = 0 then o else
    let M := d.specModel; let st := d.specState
    let L := Spec.angularMomentum M st
    also o d "COMm.spec" (sel [(true, showRat (Spec.totalMass M)), (true, showV3 (Spec.com M st)),
      (bit 0, showV3 (Spec.comVelocity M st)), (bit 1, showV3 (Spec.comAcceleration M st)), (bit 2, showV3 L.1), (bit 3, showV3 L.2)])
  | "COM0" =>
    let (u, _) := t.nat
    let (w, c) := calcCenterOfMass m d.w d.st d.qd none false (u ≠ 0)
    let o := out { d with w := w } name (" ".intercalate [showRat c.mass, showV3 c.com, showV3 c.comVel, showV3 c.angMom])
    if u = 0 then o else
    let M := d.specModel; let st := d.specState
    also o d "COM0.spec" (" ".intercalate [showRat (Spec.totalMass M), showV3 (Spec.com M st),
      showV3 (Spec.comVelocity M st), showV3 (Spec.angularMomentum M st).1])
  | "ZMP" =>
    let (n, t) := t.v3; let (p, t) := t.v3; let (u, _) := t.nat
    let (w, z) := calcZeroMomentPoint m d.w d.st d.qd d.qdd n p (u ≠ 0)
    let M := d.specModel; let st := d.specState
    -- net contact wrench about the base origin: momentum rate minus gravity
    let C := Spec.com M st; let Cdd := Spec.comAcceleration M st; let mass := Spec.totalMass M
    let f : V3 Q := mass * (Cdd - M.gravity)
    -- no net force along the normal: the zero-moment point does not exist (the C++ divides by zero)
    if n.dot f = 0 then out { d with w := w } name "undefined" else
    let o := out { d with w := w } name (showV3 z)
    if u = 0 then o else
    let LdC := (Spec.angularMomentum M st).2
    let n0 : V3 Q := LdC + C.cross f
    also o d "ZMP.spec" (showV3 ((1 / n.dot f) * (n.cross n0 + n.dot p * f)))
  | "KE" =>
    let (u, _) := t.nat
    let (w, e) := calcKineticEnergy m d.w d.st d.qd (u ≠ 0)
    let o := out { d with w := w } name (showRat e)
    if u ≠ 0 then also o d "KE.spec" (showRat (Spec.kineticEnergy d.specModel d.specState)) else o
  | "PE" =>
    let (u, _) := t.nat
    let (w, e) := calcPotentialEnergy m d.w d.st (u ≠ 0)
    let o := out { d with w := w } name (showRat e)
    if u ≠ 0 then also o d "PE.spec" (showRat (Spec.potentialEnergy d.specModel d.specState)) else o
  | "FPE" | "FPEG" | "FPED" =>   -- balance addon (C12): lean/Rbdl/BalDriver.lean
    let (w, ls) := BalDriver.run parseRat cosSinApprox m d.w d.st d.qd d.specModel d.specState d.impl name t.l
    ls.tail.foldl (fun r p => also r d p.1 p.2) (out { d with w := w } name (ls.headD ("", "")).2)
  | "ENB" =>   -- energy balance (C12): lean/Rbdl/EnbDriver.lean
    let (w, ls) := EnbDriver.run parseRat m d.w d.st d.qd d.tau d.fext d.specModel d.specState d.impl
    ls.tail.foldl (fun r p => also r d p.1 p.2) (out { d with w := w } name (ls.headD ("", "")).2)
  | _ => out d name "bad-call"

def afterAdd (d : DS) (r : ModelS Q × Except Err Nat) (name : String) : DS × String :=
  let (m', res) := r
  let w' := mergeWS d.w d.m.bodies.length d.m.customJoints.length d.m.fixedBodies.length (initWS m')
  let d' := { d with m := m', w := w' }
  match res with
  | .ok id => out d' name s!"ok {id}"
  | .error e => out d' name s!"err {errName e}"

def afterSet (d : DS) (r : ModelS Q × Except Err Unit) (id : Nat) (name : String) : DS × String :=
  let (m', res) := r
  match res with
  | .ok _ =>
    let bid := m'.refBody id
    out { d with m := m', w := { d.w with Ic := upd d.w.Ic bid (m'.rbi bid) } } name "ok"
  | .error e => out { d with m := m' } name s!"err {errName e}"

def step0 (d : DS) (line : String) : DS × Option String :=
  let toks := (line.trimAscii.toString.splitOn " ").filter (· ≠ "")
  match toks with
  | [] => (d, none)
  | cmd :: rest =>
    let t : Toks := { l := rest }
    if cmd.startsWith "#" then (d, none) else
    match cmd with
    | "case" => (DS.fresh (rest.headD "?"), none)
    | "gravity" =>
      let (g, _) := t.v3
      ({ d with m := { d.m with gravity := g }, sb := { d.sb with M := { d.sb.M with gravity := g } } }, none)
    | "add" | "append" =>
      let (parent, t) := if cmd = "add" then t.nat else (d.m.prevBodyId, t)
      let (X, t) := t.xt
      let (js, jd, t) := parseJSpec t
      let (b, t) := parseBody t
      let (nm, t) := t.next
      let nm := if nm = "-" then "" else nm
      if !t.ok then let (d, s) := out d cmd "bad-op"; (d, some s) else
      let r := match js with
        | .joint j => d.m.addBody parent X j b nm
        | .custom k => d.m.addBodyCustomJoint parent X k b nm
      let okRes := match r.2 with | .ok _ => true | .error _ => false
      let (d, s) := afterAdd d r cmd
      if !okRes then (d, some s) else
      let (sb', _) := d.sb.add parent X.E X.r jd b.mass b.com b.inertia
      -- C14: "parent / joint-frame queries return what was supplied for bodies on movable parents"
      let rec1 := match r.2 with
        | .ok id => if id < fixedDisc ∧ parent < fixedDisc ∧ !((r.1.bodies.getD parent default).isVirtual)
                    then [(id, parent, X)] else []
        | .error _ => []
      ({ d with sb := sb', supplied := d.supplied ++ rec1 }, some s)
    | "setmass" =>
      let (id, t) := t.nat; let (x, _) := t.rat
      let (d, s) := afterSet d (d.m.setBodyMass id x) id cmd
      ({ d with sb := d.sb.setParams id (fun nd => { nd with mass := x }) }, some s)
    | "setcom" =>
      let (id, t) := t.nat; let (x, _) := t.v3
      let (d, s) := afterSet d (d.m.setBodyCenterOfMass id x) id cmd
      ({ d with sb := d.sb.setParams id (fun nd => { nd with com := x }) }, some s)
    | "setinertia" =>
      let (id, t) := t.nat; let (x, _) := t.m3
      let (d, s) := afterSet d (d.m.setBodyInertia id x) id cmd
      ({ d with sb := d.sb.setParams id (fun nd => { nd with inertia := x }) }, some s)
    | "setparams" =>
      let (id, t) := t.nat; let (ms, t) := t.rat; let (I, t) := t.m3; let (c, _) := t.v3
      let (d, s) := afterSet d (d.m.setBodyInertialParameters id ms I c) id cmd
      ({ d with sb := d.sb.setParams id (fun nd => { nd with mass := ms, inertia := I, com := c }) }, some s)
    | "setframe" =>
      let (id, t) := t.nat; let (X, _) := t.xt
      let (m', res) := d.m.setJointFrame id X
      let (d, s) := out { d with m := m' } cmd (match res with | .ok _ => "ok" | .error e => s!"err {errName e}")
      (match res with
       | .ok _ => ({ d with sb := d.sb.setFrame id X.E X.r,
                             supplied := d.supplied.map (fun p => if p.1 = id then (id, p.2.1, X) else p) }, some s)
       | .error _ => (d, some s))
    | "join" | "separate" | "joinsep" =>
      let (a, t) := parseBody t; let (X, t) := t.xt; let (b, _) := parseBody t
      let showB := fun (x : Body Q) => "ok " ++ showRat x.mass ++ " " ++ showV3 x.com ++ " " ++ showM3 x.inertia
      let res : Option (Body Q) := match cmd with
        | "join" => GenUse.bodyJoin a X b
        | "separate" => GenUse.bodySeparate a X b
        | _ => (GenUse.bodyJoin a X b).bind (fun j => GenUse.bodySeparate j X b)
      let r := out d cmd (match res with | some x => showB x | none => "err zeroMass")
      let r := if cmd = "join" && a.mass + b.mass ≠ 0 && !(b.mass = 0 ∧ b.inertia = M3.zero) then
          let u := Spec.rigidUnion a.mass a.com a.inertia X.E X.r b.mass b.com b.inertia
          also r d "join.spec" ("ok " ++ showRat u.1 ++ " " ++ showV3 u.2.1 ++ " " ++ showM3 u.2.2)
        else if cmd = "joinsep" && a.mass ≠ 0 then
          also r d "joinsep.spec" (showB a)
        else if cmd = "joinsep" && a.mass = 0 && b.mass ≠ 0 then
          -- massless receiver (theorem C15.separate_join_massless_gen): centre of mass reset, inertia restored
          also r d "joinsep.spec" (showB ⟨0, V3.zero, a.inertia, false⟩)
        else r
      (r.1, some r.2)
    | "dump" => let (d, s) := out d cmd (dumpModel d.m); (d, some s)
    | "params" => let (d, s) := out d cmd (dumpParams d.m); (d, some s)
    | "getparent" =>
      let (id, _) := t.nat
      let r := out d cmd (toString (d.m.getParentBodyId id))
      let r := match d.supplied.find? (fun p => p.1 = id) with
        | some p => also r d "getparent.spec" (toString p.2.1)
        | none => r
      (r.1, some r.2)
    | "getframe" =>
      let (id, _) := t.nat
      let r := out d cmd (showXT (d.m.getJointFrame id))
      let r := match d.supplied.find? (fun p => p.1 = id) with
        | some p => also r d "getframe.spec" (showXT p.2.2)
        | none => r
      (r.1, some r.2)
    | "getid" =>
      let (nm, _) := t.next
      let (d, s) := out d cmd (toString (d.m.getBodyId nm)); (d, some s)
    | "q" =>
      let (n, t) := t.nat
      let (es, _) := parseQEntries t n
      ({ d with st := ⟨fun i => (es.getD i (0,1,0)).1, fun i => (es.getD i (0,1,0)).2.1,
                        fun i => (es.getD i (0,1,0)).2.2⟩, lastFDC := [] }, none)
    | "qd" => let (n, t) := t.nat; let (l, _) := t.rats n; ({ d with qd := vecOfList l, lastFDC := [] }, none)
    | "qdd" => let (n, t) := t.nat; let (l, _) := t.rats n; ({ d with qdd := vecOfList l }, none)
    | "tau" => let (n, t) := t.nat; let (l, _) := t.rats n; ({ d with tau := vecOfList l, lastFDC := [] }, none)
    | "fext" =>
      let (k, t) := t.next
      if k = "none" then ({ d with fext := none, lastFDC := [] }, none) else
      match k.toNat? with
      | none => (d, none)
      | some n => let (l, _) := t.svs n; ({ d with fext := some (fun i => l.getD i SV.zero), lastFDC := [] }, none)
    | "csdump" =>
      let parts := d.cset.cs.map (fun c =>
        s!"t {if c.ctype = .contact then 0 else 1} n {c.T.length} row {c.row} b {c.bodyP} {c.bodyS}")
      let (d, s) := out d cmd (" | ".intercalate (s!"size {d.cset.size}" :: parts)); (d, some s)
    | "cs_new" => ({ d with cset := CSet.empty, actuation := [], vplus := fun _ => 0, lastFDC := [] }, none)
    | "cs_contact" =>
      let (body, t) := t.nat; let (p, t) := t.v3; let (n, t) := t.v3; let (uid, _) := t.nat
      let cs' := d.cset.addContact body p n uid
      let (d, s) := out { d with cset := cs' } cmd s!"ok {cs'.size - 1}"; (d, some s)
    | "cs_loop" =>
      let (idP, t) := t.nat; let (idS, t) := t.nat; let (XP, t) := t.xt; let (XS, t) := t.xt
      let (ax, t) := t.sv; let (baum, t) := t.nat; let (ts, t) := t.rat; let (uid, _) := t.nat
      let cs' := d.cset.addLoop idP idS XP XS ax (baum ≠ 0) (1 / ts) uid
      let (d, s) := out { d with cset := cs' } cmd s!"ok {cs'.size - 1}"; (d, some s)
    | "cs_bg" =>
      -- enableBaumgarteStabilization(group) with setBaumgarteTimeConstant(tstab): both parameters = 1/tstab
      let (k, t) := t.nat; let (ts, _) := t.rat
      let cs' := (zipIdx d.cset.cs).map (fun p => if p.2 = k then { p.1 with baumgarte := true, bgA := 1 / ts, bgB := 1 / ts } else p.1)
      ({ d with cset := { d.cset with cs := cs' }, lastFDC := [] }, none)
    | "cs_bind" | "cs_solver" => (d, none)
    | "cs_actuation" =>
      let (n, t) := t.nat; let (l, _) := t.rats n
      ({ d with actuation := l.map (· ≠ 0) }, none)
    | "cs_vplus" =>
      let (n, t) := t.nat; let (l, _) := t.rats n
      ({ d with vplus := vecOfList l, lastFDC := [] }, none)
    | "alg" =>
      let op := rest.headD ""
      let args := (rest.drop 1).map (fun s => (parseRat s).getD 0)
      let r := out d ("alg." ++ op) (AlgDriver2.run op args)
      let r := match AlgDriver2.spec op args with
        | some sp => also r d ("alg." ++ op ++ ".spec") sp
        | none => r
      (r.1, some r.2)
    | "geo" =>
      let (g', lines) := GeomDriver.run (fun s => (parseRat s).getD 0) d.geo rest d.impl
      let d := { d with geo := g', impl := [] }
      (match lines with
       | [] => (d, none)
       | (n, b) :: more =>
         let r := more.foldl (fun r nb => also r d nb.1 nb.2) (out d n b)
         (r.1, some r.2))
    | "luadesc" => ({ d with lua := LuaDriver.descOp (fun s => (parseRat s).getD 0) d.lua rest }, none)
    | "ldload" =>
      let r := LuaDriver.loadOp d.lua rest
      let d := { d with m := r.m, w := initWS r.m, sb := r.sb, cset := r.cset, actuation := [], lastFDC := [] }
      let (d, s) := out { d with vplus := fun _ => 0, lua := { d.lua with rowNames := r.rowNames } } cmd r.msg
      (d, some s)
    | "csfull" => let (d, s) := out d cmd (LuaDriver.csFull showList d.cset d.lua.rowNames); (d, some s)
    | "poison" =>
      let (seed, _) := t.nat
      ({ d with w := poison d.m d.w seed }, none)
    | "impl" => ({ d with impl := rest }, none)
    | "call" => let (d, s) := doCall d t; ({ d with impl := [] }, some s)
    | _ => let (d, s) := out d cmd "bad-op"; (d, some s)

/-- bookkeeping of `DS.fresh` around `step0` -/
def step (d : DS) (line : String) : DS × Option String :=
  let toks := (line.trimAscii.toString.splitOn " ").filter (· ≠ "")
  let (d', s) := step0 d line
  let keep := ({ d' with kfresh := d.kfresh }, s)
  let reset := ({ d' with kfresh := 0 }, s)
  match toks with
  | [] => keep
  | "impl" :: _ => keep
  | "call" :: "UK" :: _ => ({ d' with kfresh := 7 }, s)
  | "call" :: "UKC" :: mk :: _ =>
    let mask := mk.toNat?.getD 0
    let b := fun (k : Nat) => (mask / 2 ^ k) % 2 = 1
    let o := fun (k : Nat) => (d.kfresh / 2 ^ k) % 2 = 1
    let fq := o 0 || b 0
    let fv := fq && (b 1 || o 1)
    let fa := fv && (b 2 || o 2)
    ({ d' with kfresh := (if fq then 1 else 0) + (if fv then 2 else 0) + (if fa then 4 else 0) }, s)
  | "call" :: nm :: args =>
    if ["B2B", "BASE2B", "ORI", "PJ", "PJ6", "BSJ", "PV", "PV6", "PA", "PA6"].contains nm then
      -- the update flag is the first 0/1 token after the numeric arguments
      let u := match nm with
        | "ORI" | "BSJ" => args.getD 1 "1"
        | _ => args.getD 4 "1"
      if u = "0" then keep else reset
    else reset
  | c :: _ => if c.startsWith "#" then keep else reset

partial def skipLua (h : IO.FS.Stream) : IO Unit := do
  let line ← h.getLine
  if line.isEmpty then return ()
  if line.trimAscii.toString = "luaend" then return ()
  skipLua h

partial def loop (h : IO.FS.Stream) (o : IO.FS.Stream) (d : DS) : IO Unit := do
  let line ← h.getLine
  if line.isEmpty then return ()
  let tl := line.trimAscii.toString
  if tl.startsWith "luafile" then
    skipLua h
    loop h o d
    return ()
  if tl.startsWith "@impl" then
    loop h o d
    return ()
  if tl.startsWith "@model " then
    -- executed silently: the equivalent API calls of a description that the C++ side loads from Lua
    let (d', _) := step d (tl.drop 7).toString
    loop h o { d' with callNo := d.callNo }
    return ()
  let (d', s) := step d line
  match s with
  | some s => o.putStrLn s
  | none => pure ()
  loop h o d'

def main : IO Unit := do
  let i ← IO.getStdin
  let o ← IO.getStdout
  loop i o (DS.fresh "none")
