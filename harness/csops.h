// constraint-set operations of the line protocol (C08-C11, C17)
#pragma once
#include "common.h"
#include "cfops.h"

struct CSState {
  std::unique_ptr<ConstraintSet> cs;
  std::vector<bool> actuation;
  void fresh() { cs.reset(new ConstraintSet()); actuation.clear(); }
};

static Math::LinearSolver solverOf(unsigned k) {
  return k == 0 ? LinearSolverPartialPivLU : k == 1 ? LinearSolverColPivHouseholderQR : LinearSolverHouseholderQR;
}

// returns true if the command was a constraint-set command
static bool csCommand(const std::string &cmd, Toks &t, Model &m, CSState &C, std::string &out) {
  ConstraintSet &cs = *C.cs;
  if (cmd == "cs_new") { C.fresh(); return true; }
  if (cmd == "cs_contact") {
    unsigned body = t.nat(); Vector3d p = t.v3(); Vector3d n = t.v3(); unsigned uid = t.nat();
    unsigned r = cs.AddContactConstraint(body, p, n, NULL, uid);
    out = "ok " + std::to_string(r);
    return true;
  }
  if (cmd == "cs_loop") {
    unsigned idP = t.nat(), idS = t.nat();
    SpatialTransform XP = t.xt(), XS = t.xt(); SpatialVector ax = t.sv();
    unsigned baum = t.nat(); double tstab = t.rat(); unsigned uid = t.nat();
    unsigned r = cs.AddLoopConstraint(idP, idS, XP, XS, ax, baum != 0, tstab, NULL, uid);
    out = "ok " + std::to_string(r);
    return true;
  }
  if (cmd == "cs_bg") {   // enable Baumgarte stabilisation for one constraint group (also contact groups)
    unsigned gidx = t.nat(); double tstab = t.rat();
    cs.constraints[gidx]->setBaumgarteTimeConstant(tstab);
    cs.enableBaumgarteStabilization(gidx);
    return true;
  }
  if (cmd == "cs_bind") { cs.Bind(m); return true; }
  if (cmd == "cs_copyprobe") {
    // C20: a second constraint set obtained with Copy(), bound to a second model (same tree, every joint frame
    // and fixed-body frame displaced) and used there; nothing is reported -- the caller compares what the
    // ORIGINAL (model, set) pair returns afterwards with a run that never made the copy
    double sh = t.rat();
    Model m2 = m;
    for (size_t i = 0; i < m2.mFixedBodies.size(); i++) m2.mFixedBodies[i].mParentTransform.r += Vector3d(sh, -sh, 2 * sh);
    for (size_t i = 1; i < m2.X_T.size(); i++) m2.X_T[i].r += Vector3d(-sh, sh, sh);
    ConstraintSet cs2 = cs.Copy();
    cs2.Bind(m2);
    VectorNd q2 = VectorNd::Zero(m2.q_size), qd2 = VectorNd::Constant(m2.qdot_size, 0.1),
             tau2 = VectorNd::Constant(m2.qdot_size, 0.2), qdd2 = VectorNd::Zero(m2.qdot_size);
    for (size_t i = 1; i < m2.mJoints.size(); i++)
      if (m2.mJoints[i].mJointType == JointTypeSpherical) m2.SetQuaternion(i, Math::Quaternion(0., 0., 0., 1.), q2);
    try {
      MatrixNd G2 = MatrixNd::Zero(cs2.size(), m2.qdot_size);
      CalcConstraintsJacobian(m2, q2, cs2, G2, true);
      ForwardDynamicsConstraintsDirect(m2, q2, qd2, tau2, cs2, qdd2);
    } catch (...) {}
    return true;
  }
  if (cmd == "cs_solver") { cs.SetSolver(solverOf(t.nat())); return true; }
  if (cmd == "cs_actuation") {
    unsigned n = t.nat(); C.actuation.clear();
    for (unsigned i = 0; i < n; i++) C.actuation.push_back(t.nat() != 0);
    cs.SetActuationMap(m, C.actuation);
    return true;
  }
  if (cmd == "cs_vplus") {
    unsigned n = t.nat();
    for (unsigned i = 0; i < n; i++) cs.v_plus[i] = t.rat();
    return true;
  }
  return false;
}

static bool csCall(const std::string &name, Toks &t, Model &m, CSState &C, VectorNd &q, VectorNd &qd,
                   VectorNd &qdd, VectorNd &tau, std::vector<SpatialVector> *fe, Out &o) {
  ConstraintSet &cs = *C.cs;
  unsigned nv = m.qdot_size, nc = cs.size();
  if (name == "CJ") {
    unsigned u = t.nat();
    MatrixNd G = MatrixNd::Zero(nc, nv);
    CalcConstraintsJacobian(m, q, cs, G, u != 0);
    o.mat(G);
  } else if (name == "CPE") {
    unsigned u = t.nat();
    VectorNd e = VectorNd::Zero(nc);
    CalcConstraintsPositionError(m, q, cs, e, u != 0);
    o.vec(e);
  } else if (name == "CVE") {
    unsigned u = t.nat();
    VectorNd e = VectorNd::Zero(nc);
    CalcConstraintsVelocityError(m, q, qd, cs, e, u != 0);
    o.vec(e);
  } else if (name == "CSV") {
    unsigned u = t.nat();
    CalcConstrainedSystemVariables(m, q, qd, tau, cs, u != 0, fe);
    o.vec(cs.gamma); o.vec(cs.err); o.vec(cs.errd); o.vec(cs.C); o.mat(cs.G); o.mat(cs.H);
  } else if (name == "FDC") {
    unsigned method = t.nat(); unsigned u = t.nat();
    VectorNd x = VectorNd::Zero(nv);
    if (method == 0) ForwardDynamicsConstraintsDirect(m, q, qd, tau, cs, x, u != 0, fe);
    else if (method == 1) ForwardDynamicsConstraintsRangeSpaceSparse(m, q, qd, tau, cs, x, u != 0, fe);
    else if (method == 2) ForwardDynamicsConstraintsNullSpace(m, q, qd, tau, cs, x, u != 0, fe);
    else ForwardDynamicsContactsKokkevis(m, q, qd, tau, cs, x);
    o.vec(x); o.vec(cs.force);
  } else if (name == "CF" || name == "CI") { cfCall(name, t, m, cs, q, qd, o);
  } else if (name == "IMP") {
    unsigned method = t.nat();
    VectorNd x = VectorNd::Zero(nv);
    if (method == 0) ComputeConstraintImpulsesDirect(m, q, qd, cs, x);
    else if (method == 1) ComputeConstraintImpulsesRangeSpaceSparse(m, q, qd, cs, x);
    else ComputeConstraintImpulsesNullSpace(m, q, qd, cs, x);
    o.vec(x); o.vec(cs.impulse);
  } else if (name == "IDC") {
    unsigned u = t.nat();
    VectorNd x = VectorNd::Zero(nv), ta = VectorNd::Zero(nv);
    InverseDynamicsConstraints(m, q, qd, qdd, cs, x, ta, u != 0, fe);
    o.vec(x); o.vec(ta); o.vec(cs.force);
  } else if (name == "IDCR") {
    unsigned u = t.nat();
    VectorNd x = VectorNd::Zero(nv), ta = VectorNd::Zero(nv);
    InverseDynamicsConstraintsRelaxed(m, q, qd, qdd, cs, x, ta, u != 0, fe);
    o.vec(x); o.vec(ta); o.vec(cs.force);
  } else if (name == "FULLACT") {
    unsigned u = t.nat();
    bool b = isConstrainedSystemFullyActuated(m, q, qd, cs, u != 0, fe);
    o.str(b ? "1" : "0");
  } else if (name == "CAQ") {
    // tolerance, max_iter, weights
    double tol = t.rat(); unsigned maxit = t.nat();
    VectorNd wts = VectorNd::Zero(nv);
    for (unsigned i = 0; i < nv; i++) wts[i] = t.rat();
    VectorNd Q = VectorNd::Zero(m.q_size);
    bool ok = CalcAssemblyQ(m, q, cs, Q, wts, tol, maxit);
    o.str(ok ? "1" : "0"); o.vec(Q);
  } else if (name == "CAQD") {
    VectorNd wts = VectorNd::Zero(nv);
    for (unsigned i = 0; i < nv; i++) wts[i] = t.rat();
    VectorNd QD = VectorNd::Zero(nv);
    CalcAssemblyQDot(m, q, qd, cs, QD, wts);
    o.vec(QD);
  } else if (name == "IK1") {
    // step_tol lambda max_iter npts (body point target)*
    double step_tol = t.rat(), lam = t.rat(); unsigned maxit = t.nat(); unsigned np = t.nat();
    std::vector<unsigned int> ids; std::vector<Vector3d> pts, tgts;
    for (unsigned i = 0; i < np; i++) { ids.push_back(t.nat()); pts.push_back(t.v3()); tgts.push_back(t.v3()); }
    VectorNd Q = VectorNd::Zero(m.q_size);
    bool ok = InverseKinematics(m, q, ids, pts, tgts, Q, step_tol, lam, maxit);
    o.str(ok ? "1" : "0"); o.vec(Q);
  } else if (name == "IK2" || name == "IK2c") {
    // lambda max_steps step_tol constraint_tol ncons (kind body point target R weight)*
    InverseKinematicsConstraintSet ik;
    if (name == "IK2c") {
      // a constraint set that was used for another problem and cleared: nothing of the earlier
      // constraints (targets, weights) may enter the new problem
      ik.AddPointConstraint(1, Vector3d(0.3, -0.2, 0.1), Vector3d(5., 4., -3.), 0.1f);
      ik.AddOrientationConstraint(1, Matrix3d::Identity(), 7.f);
      ik.AddPointConstraintZ(1, Vector3d(0., 0., 0.), Vector3d(0., 0., 9.), 0.25f);
      ik.ClearConstraints();
    }
    ik.lambda = t.rat(); ik.max_steps = t.nat(); ik.step_tol = t.rat(); ik.constraint_tol = t.rat();
    unsigned ncons = t.nat();
    for (unsigned i = 0; i < ncons; i++) {
      std::string kind = t.next(); unsigned body = t.nat(); Vector3d pt = t.v3(); Vector3d tg = t.v3();
      Matrix3d R = t.m3(); double wgt = t.rat();
      if (kind == "p") ik.AddPointConstraint(body, pt, tg, wgt);
      else if (kind == "xy") ik.AddPointConstraintXY(body, pt, tg, wgt);
      else if (kind == "z") ik.AddPointConstraintZ(body, pt, tg, wgt);
      else if (kind == "o") ik.AddOrientationConstraint(body, R, wgt);
      else ik.AddFullConstraint(body, pt, tg, R, wgt);
    }
    VectorNd Q = VectorNd::Zero(m.q_size);
    bool ok = InverseKinematics(m, q, ik, Q);
    unsigned steps = ik.num_steps; double en = ik.error_norm, dq = ik.delta_q_norm;
    // iteration-cap probe: one step fewer must not already have met the documented criteria
    int ok2 = -1; double en2 = 0., dq2 = 0.;
    if (ok && steps > 0) {
      ik.max_steps = steps;
      VectorNd Q2 = VectorNd::Zero(m.q_size);
      ok2 = InverseKinematics(m, q, ik, Q2) ? 1 : 0;
      en2 = ik.error_norm; dq2 = ik.delta_q_norm;
    }
    o.str(ok ? "1" : "0"); o.num(steps); o.num(en); o.num(dq); o.num(ok2); o.num(en2); o.num(dq2); o.vec(Q);
  } else return false;
  return true;
}
