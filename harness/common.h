// Shared helpers of the C++ side of the correspondence check: token reader, exact-rational
// input, custom joints used by the generator, deterministic workspace poisoning (mirrors
// lean/Rbdl/WSInit.lean bit for bit).
#pragma once
#include <rbdl/rbdl.h>
#include <cstdio>
#include <cstdlib>
#include <cstring>
#include <string>
#include <vector>
#include <sstream>
#include <iostream>
#include <map>
#include <memory>
#include <cmath>

using namespace RigidBodyDynamics;
using namespace RigidBodyDynamics::Math;

struct Toks {
  std::vector<std::string> l;
  size_t pos = 0;
  bool ok = true;
  std::string next() {
    if (pos >= l.size()) { ok = false; return ""; }
    return l[pos++];
  }
  static bool parseRat(const std::string &s, double &out) {
    size_t slash = s.find('/');
    char *e1 = nullptr;
    if (slash == std::string::npos) {
      if (s.empty()) return false;
      out = strtod(s.c_str(), &e1);
      return *e1 == 0;
    }
    std::string a = s.substr(0, slash), b = s.substr(slash + 1);
    if (a.empty() || b.empty()) return false;
    char *e2 = nullptr;
    double n = strtod(a.c_str(), &e1), d = strtod(b.c_str(), &e2);
    if (*e1 != 0 || *e2 != 0 || d == 0.) return false;
    out = n / d;
    return true;
  }
  double rat() {
    std::string s = next();
    double x = 0.;
    if (!parseRat(s, x)) ok = false;
    return x;
  }
  unsigned int nat() {
    std::string s = next();
    char *e = nullptr;
    unsigned long v = strtoul(s.c_str(), &e, 10);
    if (s.empty() || *e != 0) ok = false;
    return (unsigned int) v;
  }
  Vector3d v3() { double x = rat(), y = rat(), z = rat(); return Vector3d(x, y, z); }
  Matrix3d m3() {
    double a[9];
    for (int i = 0; i < 9; i++) a[i] = rat();
    return Matrix3d(a[0], a[1], a[2], a[3], a[4], a[5], a[6], a[7], a[8]);
  }
  SpatialVector sv() {
    double a[6];
    for (int i = 0; i < 6; i++) a[i] = rat();
    return SpatialVector(a[0], a[1], a[2], a[3], a[4], a[5]);
  }
  SpatialTransform xt() { Matrix3d E = m3(); Vector3d r = v3(); return SpatialTransform(E, r); }
};

inline Toks tokenize(const std::string &line) {
  Toks t;
  std::istringstream is(line);
  std::string w;
  while (is >> w) t.l.push_back(w);
  return t;
}

// ---------------------------------------------------------------------------------------------
// user-defined joints (CustomJoint interface)
struct CustomBase : public CustomJoint {
  void alloc(unsigned int n) {
    mDoFCount = n;
    S = MatrixNd::Zero(6, n);
    U = MatrixNd::Zero(6, n);
    Dinv = MatrixNd::Zero(n, n);
    u = VectorNd::Zero(n);
    d_u = VectorNd::Zero(n);
  }
};

struct CustomRevX : public CustomBase {
  CustomRevX() { alloc(1); }
  void calc(Model &model, unsigned int id, const VectorNd &q) {
    model.X_lambda[id] = Xrotx(q[model.mJoints[id].q_index]) * model.X_T[id];
    S.setZero();
    S(0, 0) = 1.;
  }
  virtual void jcalc(Model &model, unsigned int id, const VectorNd &q, const VectorNd &qdot) {
    calc(model, id, q);
    model.v_J[id] = S * qdot.block(model.mJoints[id].q_index, 0, 1, 1);
    model.c_J[id].setZero();
  }
  virtual void jcalc_X_lambda_S(Model &model, unsigned int id, const VectorNd &q) { calc(model, id, q); }
};

struct CustomCyl : public CustomBase {
  CustomCyl() { alloc(2); }
  void calc(Model &model, unsigned int id, const VectorNd &q) {
    unsigned int k = model.mJoints[id].q_index;
    model.X_lambda[id] = Xrotz(q[k]) * Xtrans(Vector3d(0., 0., q[k + 1])) * model.X_T[id];
    S.setZero();
    S(2, 0) = 1.;
    S(5, 1) = 1.;
  }
  virtual void jcalc(Model &model, unsigned int id, const VectorNd &q, const VectorNd &qdot) {
    calc(model, id, q);
    model.v_J[id] = S * qdot.block(model.mJoints[id].q_index, 0, 2, 1);
    model.c_J[id].setZero();
  }
  virtual void jcalc_X_lambda_S(Model &model, unsigned int id, const VectorNd &q) { calc(model, id, q); }
};

struct CustomEulerZYX : public CustomBase {
  CustomEulerZYX() { alloc(3); }
  void calc(Model &model, unsigned int id, const VectorNd &q) {
    unsigned int k = model.mJoints[id].q_index;
    double s0 = sin(q[k]), c0 = cos(q[k]), s1 = sin(q[k + 1]), c1 = cos(q[k + 1]),
           s2 = sin(q[k + 2]), c2 = cos(q[k + 2]);
    model.X_lambda[id] = SpatialTransform(Matrix3d(
        c0 * c1, s0 * c1, -s1,
        c0 * s1 * s2 - s0 * c2, s0 * s1 * s2 + c0 * c2, c1 * s2,
        c0 * s1 * c2 + s0 * s2, s0 * s1 * c2 - c0 * s2, c1 * c2), Vector3d::Zero()) * model.X_T[id];
    S.setZero();
    S(0, 0) = -s1; S(0, 2) = 1.;
    S(1, 0) = c1 * s2; S(1, 1) = c2;
    S(2, 0) = c1 * c2; S(2, 1) = -s2;
  }
  virtual void jcalc(Model &model, unsigned int id, const VectorNd &q, const VectorNd &qdot) {
    calc(model, id, q);
    unsigned int k = model.mJoints[id].q_index;
    double s1 = sin(q[k + 1]), c1 = cos(q[k + 1]), s2 = sin(q[k + 2]), c2 = cos(q[k + 2]);
    double qd0 = qdot[k], qd1 = qdot[k + 1], qd2 = qdot[k + 2];
    model.v_J[id] = S * Vector3d(qd0, qd1, qd2);
    model.c_J[id].set(
        -c1 * qd0 * qd1,
        -s1 * s2 * qd0 * qd1 + c1 * c2 * qd0 * qd2 - s2 * qd1 * qd2,
        -s1 * c2 * qd0 * qd1 - c1 * s2 * qd0 * qd2 - c2 * qd1 * qd2,
        0., 0., 0.);
  }
  virtual void jcalc_X_lambda_S(Model &model, unsigned int id, const VectorNd &q) { calc(model, id, q); }
};

// ---------------------------------------------------------------------------------------------
// poison
inline unsigned int pzNat(unsigned long long seed, unsigned long long tag, unsigned long long i,
                          unsigned long long k) {
  unsigned long long h = (seed * 1000003ULL + tag * 10007ULL + i * 101ULL + k) % 2147483648ULL;
  h = (h * 1103515245ULL + 12345ULL) % 2147483648ULL;
  h = (h * 1103515245ULL + 12345ULL) % 2147483648ULL;
  return (unsigned int) ((h / 256ULL) % 33ULL);
}
inline double pz(unsigned int seed, unsigned int tag, unsigned int i, unsigned int k) {
  return ((double) pzNat(seed, tag, i, k) - 16.) / 8.;
}
inline SpatialVector pzSV(unsigned seed, unsigned tag, unsigned i) {
  return SpatialVector(pz(seed, tag, i, 0), pz(seed, tag, i, 1), pz(seed, tag, i, 2),
                       pz(seed, tag, i, 3), pz(seed, tag, i, 4), pz(seed, tag, i, 5));
}
inline SpatialTransform pzXT(unsigned seed, unsigned tag, unsigned i) {
  Matrix3d E;
  for (int r = 0; r < 3; r++) for (int c = 0; c < 3; c++) E(r, c) = pz(seed, tag, i, 3 * r + c);
  return SpatialTransform(E, Vector3d(pz(seed, tag, i, 9), pz(seed, tag, i, 10), pz(seed, tag, i, 11)));
}

inline void poisonModel(Model &m, unsigned int seed) {
  unsigned int n = m.mBodies.size();
  for (unsigned int i = 0; i < n; i++) {
    m.v[i] = pzSV(seed, 1, i);
    m.a[i] = pzSV(seed, 2, i);
    m.c[i] = pzSV(seed, 6, i);
    m.f[i] = pzSV(seed, 7, i);
    m.pA[i] = pzSV(seed, 8, i);
    m.U[i] = pzSV(seed, 9, i);
    m.hc[i] = pzSV(seed, 10, i);
    m.hdotc[i] = pzSV(seed, 11, i);
    for (int r = 0; r < 6; r++) for (int c = 0; c < 6; c++) m.IA[i](r, c) = pz(seed, 14, i, 6 * r + c);
    m.d[i] = pz(seed, 15, i, 0);
    m.u[i] = pz(seed, 16, i, 0);
    m.Ic[i] = SpatialRigidBodyInertia(pz(seed, 17, i, 0),
        Vector3d(pz(seed, 17, i, 1), pz(seed, 17, i, 2), pz(seed, 17, i, 3)),
        pz(seed, 17, i, 4), pz(seed, 17, i, 5), pz(seed, 17, i, 6), pz(seed, 17, i, 7),
        pz(seed, 17, i, 8), pz(seed, 17, i, 9));
    for (int r = 0; r < 6; r++) for (int c = 0; c < 3; c++) m.multdof3_U[i](r, c) = pz(seed, 19, i, 3 * r + c);
    for (int r = 0; r < 3; r++) for (int c = 0; c < 3; c++) m.multdof3_Dinv[i](r, c) = pz(seed, 20, i, 3 * r + c);
    m.multdof3_u[i] = Vector3d(pz(seed, 21, i, 0), pz(seed, 21, i, 1), pz(seed, 21, i, 2));
    if (i == 0) continue;
    m.X_lambda[i] = pzXT(seed, 12, i);
    m.X_base[i] = pzXT(seed, 13, i);
    JointType jt = m.mJoints[i].mJointType;
    // v_J
    SpatialVector p = pzSV(seed, 4, i);
    if (jt == JointTypeRevoluteX) m.v_J[i][0] = p[0];
    else if (jt == JointTypeRevoluteY) m.v_J[i][1] = p[1];
    else if (jt == JointTypeRevoluteZ) m.v_J[i][2] = p[2];
    else m.v_J[i] = p;
    // c_J
    if (jt == JointTypeHelical || jt == JointTypeEulerZYX || jt == JointTypeEulerXYZ
        || jt == JointTypeEulerYXZ || jt == JointTypeEulerZXY || jt == JointTypeTranslationXYZ
        || jt == JointTypeCustom)
      m.c_J[i] = pzSV(seed, 5, i);
    // S
    if (jt == JointTypeHelical) m.S[i] = pzSV(seed, 3, i);
    // multdof3_S: exactly the entries the joint's jcalc writes
    auto P = [&](int r, int c) { m.multdof3_S[i](r, c) = pz(seed, 18, i, 3 * r + c); };
    if (jt == JointTypeSpherical) { P(0, 0); P(1, 1); P(2, 2); }
    else if (jt == JointTypeEulerZYX) { P(0, 0); P(1, 0); P(2, 0); P(1, 1); P(2, 1); P(0, 2); }
    else if (jt == JointTypeEulerXYZ) { P(0, 0); P(1, 0); P(2, 0); P(0, 1); P(1, 1); P(2, 2); }
    else if (jt == JointTypeEulerYXZ) { P(0, 0); P(1, 0); P(2, 0); P(0, 1); P(1, 1); P(2, 2); }
    else if (jt == JointTypeEulerZXY) { P(0, 0); P(1, 0); P(2, 0); P(0, 1); P(2, 1); P(1, 2); }
    else if (jt == JointTypeTranslationXYZ) { P(3, 0); P(4, 1); P(5, 2); }
  }
  for (unsigned int k = 0; k < m.mCustomJoints.size(); k++) {
    CustomJoint *cj = m.mCustomJoints[k];
    unsigned int dd = cj->mDoFCount;
    for (unsigned c = 0; c < dd; c++) for (unsigned r = 0; r < 6; r++) {
      cj->S(r, c) = pz(seed, 22, k, c * 6 + r);
      cj->U(r, c) = pz(seed, 23, k, c * 6 + r);
    }
    for (unsigned r = 0; r < dd; r++) for (unsigned c = 0; c < dd; c++) cj->Dinv(r, c) = pz(seed, 24, k, r * dd + c);
    for (unsigned r = 0; r < dd; r++) cj->u[r] = pz(seed, 25, k, r);
  }
  for (unsigned int k = 0; k < m.mFixedBodies.size(); k++) m.mFixedBodies[k].mBaseTransform = pzXT(seed, 26, k);
}

// ---------------------------------------------------------------------------------------------
// output
struct Out {
  std::ostringstream os;
  void num(double x) { char b[40]; snprintf(b, sizeof b, "%.17g", x); os << ' ' << b; }
  void v3(const Vector3d &v) { for (int i = 0; i < 3; i++) num(v[i]); }
  void sv(const SpatialVector &v) { for (int i = 0; i < 6; i++) num(v[i]); }
  void m3(const Matrix3d &A) { for (int r = 0; r < 3; r++) for (int c = 0; c < 3; c++) num(A(r, c)); }
  void xt(const SpatialTransform &X) { m3(X.E); v3(X.r); }
  void vec(const VectorNd &v) { for (int i = 0; i < v.size(); i++) num(v[i]); }
  void mat(const MatrixNd &A) { for (int r = 0; r < A.rows(); r++) for (int c = 0; c < A.cols(); c++) num(A(r, c)); }
  void str(const std::string &s) { os << ' ' << s; }
};
