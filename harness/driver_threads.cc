// C20: independent instances share no hidden state.
// Reads a protocol file from stdin, splits it into its cases and runs
//   (1) every case alone                                   -> reference outputs
//   (2) all cases concurrently, one thread per case        -> must be bit-identical to (1)
//   (3) pairs of cases interleaved line by line on one thread (two interpreters) -> identical to (1)
// Prints one line per comparison; exit code 0 always (the check decides).
#define VERIF_NO_MAIN 1
#define VERIF_WITH_LUA 1
#include "driver.cc"
#include <thread>

static std::vector<std::string> splitCases(const std::string &text) {
  std::vector<std::string> cases;
  std::istringstream is(text);
  std::string line, cur;
  bool inlua = false;
  while (std::getline(is, line)) {
    if (!inlua && line.rfind("case ", 0) == 0 && !cur.empty()) { cases.push_back(cur); cur.clear(); }
    if (line.rfind("luafile", 0) == 0) inlua = true;
    if (line == "luaend") inlua = false;
    cur += line + "\n";
  }
  if (!cur.empty()) cases.push_back(cur);
  return cases;
}

// two interpreters fed alternately, one line each, on the calling thread
static void runInterleaved(const std::string &a, const std::string &b, std::string &oa, std::string &ob) {
  std::istringstream ia(a), ib(b);
  std::ostringstream sa, sb;
  State A, B;
  A.out = &sa; A.in = &ia; A.tag = "ia"; A.fresh("none");
  B.out = &sb; B.in = &ib; B.tag = "ib"; B.fresh("none");
  std::string la, lb;
  bool ma = true, mb = true;
  while (ma || mb) {
    if (ma) { ma = (bool) std::getline(ia, la); if (ma) process_line(A, la); }
    if (mb) { mb = (bool) std::getline(ib, lb); if (mb) process_line(B, lb); }
  }
  oa = sa.str(); ob = sb.str();
}

int main(int argc, char **argv) {
  std::string text((std::istreambuf_iterator<char>(std::cin)), std::istreambuf_iterator<char>());
  std::vector<std::string> cases = splitCases(text);
  size_t n = cases.size();
  std::vector<std::string> solo(n), conc(n);
  for (size_t i = 0; i < n; i++) {
    std::istringstream in(cases[i]); std::ostringstream out;
    run_stream(in, out, "s" + std::to_string(i));
    solo[i] = out.str();
  }
  unsigned rounds = argc > 1 ? atoi(argv[1]) : 3;
  size_t mism = 0, total = 0;
  for (unsigned r = 0; r < rounds; r++) {
    std::vector<std::thread> th;
    std::vector<std::ostringstream> outs(n);
    for (size_t i = 0; i < n; i++) {
      th.emplace_back([&, i]() {
        std::istringstream in(cases[i]);
        run_stream(in, outs[i], "t" + std::to_string(i));
      });
    }
    for (auto &t : th) t.join();
    for (size_t i = 0; i < n; i++) {
      total++;
      if (outs[i].str() != solo[i]) {
        mism++;
        std::string cid = cases[i].substr(5, cases[i].find('\n') - 5);
        std::cout << "MISMATCH round " << r << " case " << cid << "\n";
      }
    }
  }
  // interleaved single-thread histories: neighbouring cases, line by line
  size_t imism = 0, itotal = 0;
  for (size_t i = 0; i + 1 < n; i += 2) {
    std::string oa, ob;
    runInterleaved(cases[i], cases[i + 1], oa, ob);
    itotal += 2;
    if (oa != solo[i]) { imism++; std::cout << "MISMATCH interleaved case " << cases[i].substr(5, cases[i].find('\n') - 5) << "\n"; }
    if (ob != solo[i + 1]) { imism++; std::cout << "MISMATCH interleaved case " << cases[i + 1].substr(5, cases[i + 1].find('\n') - 5) << "\n"; }
  }
  std::cout << "interleaved comparisons " << itotal << " mismatches " << imism << "\n";
  std::cout << "threads " << n << " rounds " << rounds << " comparisons " << total << " mismatches " << mism << "\n";
  return 0;
}
