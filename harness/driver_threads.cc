// C20: independent instances share no hidden state.
// Reads a protocol file from stdin, splits it into its cases and runs
//   (1) every case alone                                   -> reference outputs
//   (2) all cases concurrently, one thread per case        -> must be bit-identical to (1)
//   (3) pairs of cases interleaved line by line on one thread (two interpreters) -> identical to (1)
// Prints one line per comparison; exit code 0 always (the check decides).
#define VERIF_NO_MAIN 1
#define VERIF_WITH_LUA 1
#include "driver.cc"
#include <thread>

static std::vector<std::string> splitCases(const std::string &text) {
  std::vector<std::string> cases;
  std::istringstream is(text);
  std::string line, cur;
  bool inlua = false;
  while (std::getline(is, line)) {
    if (!inlua && line.rfind("case ", 0) == 0 && !cur.empty()) { cases.push_back(cur); cur.clear(); }
    if (line.rfind("luafile", 0) == 0) inlua = true;
    if (line == "luaend") inlua = false;
    cur += line + "\n";
  }
  if (!cur.empty()) cases.push_back(cur);
  return cases;
}

#include <sys/wait.h>
// run one case in a forked child and collect its output through a pipe
static std::string runInFreshProcess(const std::string &text, const std::string &tag) {
  int fd[2];
  if (pipe(fd) != 0) return "pipe-failed";
  std::cout.flush();
  pid_t pid = fork();
  if (pid == 0) {
    close(fd[0]);
    std::istringstream in(text); std::ostringstream out;
    run_stream(in, out, tag);
    std::string o = out.str();
    size_t off = 0;
    while (off < o.size()) { ssize_t w = write(fd[1], o.data() + off, o.size() - off); if (w <= 0) break; off += (size_t) w; }
    close(fd[1]);
    _exit(0);
  }
  close(fd[1]);
  std::string res; char buf[65536]; ssize_t r;
  while ((r = read(fd[0], buf, sizeof buf)) > 0) res.append(buf, (size_t) r);
  close(fd[0]);
  int st = 0; waitpid(pid, &st, 0);
  return res;
}

// two interpreters fed alternately, one line each, on the calling thread
static void runInterleaved(const std::string &a, const std::string &b, std::string &oa, std::string &ob) {
  std::istringstream ia(a), ib(b);
  std::ostringstream sa, sb;
  State A, B;
  A.out = &sa; A.in = &ia; A.tag = "ia"; A.fresh("none");
  B.out = &sb; B.in = &ib; B.tag = "ib"; B.fresh("none");
  std::string la, lb;
  bool ma = true, mb = true;
  while (ma || mb) {
    if (ma) { ma = (bool) std::getline(ia, la); if (ma) process_line(A, la); }
    if (mb) { mb = (bool) std::getline(ib, lb); if (mb) process_line(B, lb); }
  }
  oa = sa.str(); ob = sb.str();
}

int main(int argc, char **argv) {
  std::string text((std::istreambuf_iterator<char>(std::cin)), std::istreambuf_iterator<char>());
  std::vector<std::string> cases = splitCases(text);
  size_t n = cases.size();
  std::vector<std::string> solo(n), conc(n);
  // reference: every case truly alone, in a fresh process (no process-wide or thread-local state of an
  // earlier case can be present)
  for (size_t i = 0; i < n; i++) solo[i] = runInFreshProcess(cases[i], "s" + std::to_string(i));
  // (0) the same cases one after the other on this thread (the coarsest interleaving of one thread):
  // hidden static / thread_local caches keyed by size show up here
  size_t smism = 0;
  for (size_t i = 0; i < n; i++) {
    std::istringstream in(cases[i]); std::ostringstream out;
    run_stream(in, out, "q" + std::to_string(i));
    if (out.str() != solo[i]) {
      smism++;
      std::cout << "MISMATCH sequential case " << cases[i].substr(5, cases[i].find('\n') - 5) << "\n";
    }
  }
  std::cout << "sequential comparisons " << n << " mismatches " << smism << "\n";
  unsigned rounds = argc > 1 ? atoi(argv[1]) : 3;
  size_t mism = 0, total = 0;
  for (unsigned r = 0; r < rounds; r++) {
    std::vector<std::thread> th;
    std::vector<std::ostringstream> outs(n);
    for (size_t i = 0; i < n; i++) {
      th.emplace_back([&, i]() {
        std::istringstream in(cases[i]);
        run_stream(in, outs[i], "t" + std::to_string(i));
      });
    }
    for (auto &t : th) t.join();
    for (size_t i = 0; i < n; i++) {
      total++;
      if (outs[i].str() != solo[i]) {
        mism++;
        std::string cid = cases[i].substr(5, cases[i].find('\n') - 5);
        std::cout << "MISMATCH round " << r << " case " << cid << "\n";
      }
    }
  }
  // interleaved single-thread histories: neighbouring cases, line by line
  size_t imism = 0, itotal = 0;
  for (size_t i = 0; i + 1 < n; i += 2) {
    std::string oa, ob;
    runInterleaved(cases[i], cases[i + 1], oa, ob);
    itotal += 2;
    if (oa != solo[i]) { imism++; std::cout << "MISMATCH interleaved case " << cases[i].substr(5, cases[i].find('\n') - 5) << "\n"; }
    if (ob != solo[i + 1]) { imism++; std::cout << "MISMATCH interleaved case " << cases[i + 1].substr(5, cases[i + 1].find('\n') - 5) << "\n"; }
  }
  std::cout << "interleaved comparisons " << itotal << " mismatches " << imism << "\n";
  std::cout << "threads " << n << " rounds " << rounds << " comparisons " << total << " mismatches " << mism << "\n";
  return 0;
}
