// the protocol driver plus the geometry / muscle addons (C18)
#define VERIF_WITH_GEO 1
#include "driver.cc"
