// `call FPE | FPEG | FPED px py pz nx ny nz small upd`: the balance addon's foot-placement estimator
// (addons/balance/BalanceToolkit.cc, C12) on the current model / state.
//   FPE   the fields that are functions of the state (mass-weighted sums and what is derived from them
//         without a solver): r0C0 v0C0 HC0 JC0 r0P0 HP0 JP0 h k                        (37 numbers)
//   FPEG  every remaining non-derivative field plus the implementation's own cos / sin / tan of the
//         reported angle and three witnesses (norms) that the Lean side checks by squaring  (35 numbers)
//   FPED  the 20 derivative fields (evaluate_derivatives = true) plus the scalar state they refer to
#pragma once
#include "common.h"
#include "balance/BalanceToolkit.h"

static bool balCall(const std::string &name, Toks &t, Model &m, VectorNd &q, VectorNd &qd, Out &o) {
  if (name != "FPE" && name != "FPEG" && name != "FPED") return false;
  using namespace RigidBodyDynamics::Addons::Balance;
  Vector3d p = t.v3(); Vector3d nrm = t.v3(); double small = t.rat(); unsigned upd = t.nat();
  if (!t.ok) { o.str("bad-call"); return true; }
  FootPlacementEstimatorInfo I;
  BalanceToolkit::CalculateFootPlacementEstimator(m, q, qd, p, nrm, I, small, name == "FPED", upd != 0);
  if (name == "FPE") {
    o.v3(I.r0C0); o.v3(I.v0C0); o.v3(I.HC0); o.m3(I.JC0); o.v3(I.r0P0); o.v3(I.HP0); o.m3(I.JP0);
    o.num(I.h); o.v3(I.k);
  } else if (name == "FPEG") {
    double g = m.gravity.norm();
    Vector3d HP0small = I.JP0 * Vector3d(small, small, small);
    Vector3d nraw = I.HP0 - (I.HP0.dot(I.k)) * I.k;
    double dn = std::max(nraw.norm(), HP0small.norm());
    double dH = std::max(I.HP0.norm(), HP0small.norm());
    o.num(I.f); o.num((double) I.iterations); o.num(I.phi);
    o.num(cos(I.phi)); o.num(sin(I.phi)); o.num(tan(I.phi));
    o.v3(I.r0F0); o.num(I.projectionError); o.v3(I.n); o.v3(I.u); o.v3(I.k); o.v3(I.w0C0); o.v3(I.w0P0);
    o.num(I.nJC0n); o.num(I.v0C0u); o.num(I.v0C0k); o.num(I.w0C0n); o.num(I.w0F0nPlus);
    o.num(I.l); o.num(I.E); o.num(g); o.num(dn); o.num(dH);
  } else {
    o.num(I.Df_Dphi); o.num(I.Df_Dw0C0n); o.num(I.Df_Dh); o.num(I.Df_Dv0C0u); o.num(I.Df_Dv0C0k);
    o.num(I.Df_DnJC0n); o.num(I.Df_Dm); o.num(I.Df_Dg);
    o.num(I.Ds_Dl); o.num(I.Ds_DnJC0n); o.num(I.Ds_DE); o.num(I.Ds_Dv0C0u); o.num(I.Ds_Dv0C0k); o.num(I.Ds_Dw0C0n);
    o.num(I.Dphi_Dl); o.num(I.Dphi_DnJC0n); o.num(I.Dphi_DE); o.num(I.Dphi_Dv0C0u); o.num(I.Dphi_Dv0C0k);
    o.num(I.Dphi_Dw0C0n);
    // the scalar state of Eqn. 45 as the implementation had it
    o.num(cos(I.phi)); o.num(sin(I.phi)); o.num(tan(I.phi));
    o.num(I.nJC0n); o.num(I.v0C0u); o.num(I.v0C0k); o.num(I.w0C0n); o.num(I.h); o.num(m.gravity.norm());
    // fields that must not depend on the evaluate_derivatives flag
    o.num(I.f); o.num(I.phi); o.v3(I.r0F0);
  }
  return true;
}
