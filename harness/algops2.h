// `alg <op> args...`, second part: operations added for the typed translator tier
// (tools/cxx2lean_typed.py): constructor forms and the closed-form joint branches of jcalc.
// Included by algops.h (uses its readRBI / outRBI helpers).
#pragma once

static bool algOp2(const std::string &op, Toks &t, Out &o) {
  if (op == "rbiCtor") { double m = t.rat(); Vector3d h = t.v3(); Matrix3d I = t.m3(); outRBI(o, SpatialRigidBodyInertia(m, h, I)); }
  else if (op == "bodyTransformInertia") {
    SpatialTransform X = t.xt(); double m = t.rat(); Vector3d c = t.v3(); Matrix3d I = t.m3();
    o.m3(Body::TransformInertiaToBodyFrame(X, Body(m, c, I)));
  }
  else if (op == "jcalc" || op == "jcalcXlambdaS") {
    // one body with the given joint type / frame / axis; the five per-joint model entries are set to
    // the given values, then the library routine is called
    int code = (int) t.rat();
    JointType jt = (JointType) code;
    SpatialTransform X_T = t.xt(); SpatialVector axis = t.sv();
    double q[3], qd[3];
    for (int k = 0; k < 3; k++) { q[k] = t.rat(); t.rat(); t.rat(); }
    for (int k = 0; k < 3; k++) qd[k] = t.rat();
    Quaternion quat = readQuat(t);
    SpatialTransform Xl0 = t.xt(); SpatialVector vJ0 = t.sv(), cJ0 = t.sv(), S0 = t.sv();
    Matrix63 S30; for (int r = 0; r < 6; r++) for (int c = 0; c < 3; c++) S30(r, c) = t.rat();
    bool hasAxis = (jt == JointTypeRevolute || jt == JointTypePrismatic || jt == JointTypeHelical);
    Model model;
    Joint joint = hasAxis ? Joint(axis) : Joint(jt);
    model.AddBody(0, X_T, joint, Body(1., Vector3d(0., 0., 0.), Vector3d(1., 1., 1.)));
    model.mJoints[1].mJointType = jt;
    if (hasAxis) model.mJoints[1].mJointAxes[0] = axis;
    model.X_T[1] = X_T;
    model.X_lambda[1] = Xl0; model.v_J[1] = vJ0; model.c_J[1] = cJ0; model.S[1] = S0; model.multdof3_S[1] = S30;
    VectorNd Q = VectorNd::Zero(model.q_size), QDot = VectorNd::Zero(model.qdot_size);
    if (jt == JointTypeSpherical) model.SetQuaternion(1, quat, Q);
    else for (unsigned k = 0; k < model.mJoints[1].mDoFCount; k++) Q[k] = q[k];
    for (unsigned k = 0; k < model.mJoints[1].mDoFCount; k++) QDot[k] = qd[k];
    if (op == "jcalc") jcalc(model, 1, Q, QDot); else jcalc_X_lambda_S(model, 1, Q);
    o.xt(model.X_lambda[1]); o.sv(model.v_J[1]); o.sv(model.c_J[1]); o.sv(model.S[1]);
    for (int r = 0; r < 6; r++) for (int c = 0; c < 3; c++) o.num(model.multdof3_S[1](r, c));
  }
  else if (op == "angvel") { Matrix3d R = t.m3(); o.v3(CalcAngularVelocityfromMatrix(R)); }
  else return false;
  return true;
}
