// C19: the model description arrives as data (`luadesc …` lines, see lean/Rbdl/LuaDriver.lean for the
// grammar); this side renders it to Lua text -- a purely textual step: field present -> field written,
// numbers p/q -> (p/q) -- and hands the file to the real loader (`ldload`).  The Lean side runs
// `LuaLoad.load` on the very same lines.  `csfull` dumps everything a ConstraintSet stores about its
// constraints.
#pragma once
#include "common.h"
#include "csops.h"
#include "luamodel/luamodel.h"
#include <fstream>
#include <unistd.h>

struct LuaDescState {
  bool open = false;
  std::string file;
  std::ostringstream head, frames, sets;
  bool inSet = false;
  void reset() { open = false; file.clear(); head.str(""); frames.str(""); sets.str(""); inSet = false; }
};

namespace luaops {

static std::string num(const std::string &s) { return "(" + s + ")"; }

static std::string vecN(Toks &t, int n) {
  std::string o = "{";
  for (int i = 0; i < n; i++) { if (i) o += ", "; o += num(t.next()); }
  return o + "}";
}
static std::string mat3(Toks &t) {
  std::string o = "{";
  for (int i = 0; i < 3; i++) { if (i) o += ", "; o += vecN(t, 3); }
  return o + "}";
}
// - | <tag> x y z
static bool optVec(Toks &t, int n, std::string &out) {
  if (t.next() == "-") return false;
  out = vecN(t, n);
  return true;
}
static bool optMat(Toks &t, std::string &out) {
  if (t.next() == "-") return false;
  out = mat3(t);
  return true;
}
// FRAME := - | F (- | r x y z) (- | E 9)        -> "{ r = …, E = … }"
static bool frameTable(Toks &t, std::string &out) {
  if (t.next() != "F") return false;
  std::string r, E, o = "{ ";
  bool hr = optVec(t, 3, r), hE = optMat(t, E);
  if (hr) o += "r = " + r + ", ";
  if (hE) o += "E = " + E + ", ";
  out = o + "}";
  return true;
}

static void frameLine(Toks &t, std::ostream &L) {
  std::string name = t.next(), parent = t.next();
  L << "    {\n";
  if (name != "-") L << "      name = \"" << name << "\",\n";
  if (parent != "-") L << "      parent = \"" << parent << "\",\n";
  std::string F;
  if (frameTable(t, F)) L << "      joint_frame = " << F << ",\n";
  std::string j = t.next();
  if (j == "A") {
    unsigned n = t.nat();
    L << "      joint = { ";
    for (unsigned i = 0; i < n; i++) L << vecN(t, 6) << ", ";
    L << "},\n";
  } else if (j == "N") {
    L << "      joint = { \"" << t.next() << "\" },\n";
  }
  if (t.next() == "B") {
    std::string ms = t.next(), c, I;
    L << "      body = { ";
    if (ms != "-") L << "mass = " << num(ms) << ", ";
    if (optVec(t, 3, c)) L << "com = " << c << ", ";
    if (optMat(t, I)) L << "inertia = " << I << ", ";
    L << "},\n";
  }
  L << "    },\n";
}

static void conLine(Toks &t, std::ostream &L) {
  std::string name = t.next(), id = t.next(), stab = t.next(), par = t.next(), kind = t.next();
  L << "      { ";
  if (kind == "contact") {
    L << "constraint_type = \"contact\", ";
    std::string b = t.next(), p, n;
    if (b != "-") L << "body = \"" << b << "\", ";
    if (optVec(t, 3, p)) L << "point = " << p << ", ";
    if (optVec(t, 3, n)) L << "normal = " << n << ", ";
    if (t.next() == "S") {
      unsigned k = t.nat();
      L << "normal_sets = { ";
      for (unsigned i = 0; i < k; i++) L << vecN(t, 3) << ", ";
      L << "}, ";
    }
  } else if (kind == "loop") {
    L << "constraint_type = \"loop\", ";
    std::string p = t.next(), s = t.next(), XP, XS, a;
    if (p != "-") L << "predecessor_body = \"" << p << "\", ";
    if (s != "-") L << "successor_body = \"" << s << "\", ";
    if (frameTable(t, XP)) L << "predecessor_transform = " << XP << ", ";
    if (frameTable(t, XS)) L << "successor_transform = " << XS << ", ";
    if (optVec(t, 6, a)) L << "axis = " << a << ", ";
    if (t.next() == "S") {
      unsigned k = t.nat();
      L << "axis_sets = { ";
      for (unsigned i = 0; i < k; i++) L << vecN(t, 6) << ", ";
      L << "}, ";
    }
  } else {
    std::string ty = t.next();
    if (ty != "-") L << "constraint_type = \"" << ty << "\", ";
  }
  if (name != "-") L << "name = \"" << name << "\", ";
  if (id != "-") L << "id = " << id << ", ";
  if (stab == "1") L << "enable_stabilization = true, ";
  if (par != "-") L << "stabilization_parameter = " << num(par) << ", ";
  L << "},\n";
}

static std::string errKindLua(const std::string &msg) {
  auto has = [&](const char *s) { return msg.find(s) != std::string::npos; };
  if (has("Parent not defined")) return "noParent";
  if (has("invalid joint motion subspace")) return "badJoint";
  if (has("Invalid number of DOFs")) return "badJointDofs";
  if (has("could not find value")) return "missingValue";
  if (has("already exists")) return "duplicateName";
  if (has("nvalid joint type")) return "invalidJoint";
  if (has("zero mass")) return "zeroMass";
  if (has("Constraint set not existing")) return "noSuchSet";
  if (has("constraint_type not specified")) return "noConstraintType";
  if (has("Invalid constraint type")) return "badConstraintType";
  if (has("Invalid stabilization parameter")) return "badStabilization";
  if (has("predecessor_body not specified")) return "noPredecessor";
  if (has("successor_body not specified")) return "noSuccessor";
  if (has("body not specified")) return "noBody";
  if (has("normal_sets field must be")) return "badNormalSets";
  if (has("must have either normal_sets")) return "noNormal";
  if (has("axis_sets field must be")) return "badAxisSets";
  if (has("must have either axis_sets")) return "noAxis";
  return "other";
}

static std::string csFull(ConstraintSet &cs) {
  Out o;
  o.os << "size " << cs.size();
  size_t ic = 0, il = 0;
  for (size_t i = 0; i < cs.constraints.size(); i++) {
    Constraint &c = *cs.constraints[i];
    Vector2d bg; c.getBaumgarteStabilizationParameters(bg);
    o.os << " | t " << c.getConstraintType() << " n " << c.getConstraintSize() << " row " << c.getConstraintIndex()
         << " b " << c.getBodyIds()[0] << " " << c.getBodyIds()[1] << " uid " << c.getUserDefinedId()
         << " bg " << (c.isBaumgarteStabilizationEnabled() ? 1 : 0);
    o.num(bg[0]); o.num(bg[1]);
    o.xt(c.getBodyFrames()[0]); o.xt(c.getBodyFrames()[1]);
    if (c.getConstraintType() == ConstraintTypeContact) {
      for (auto &n : cs.contactConstraints[ic]->getConstraintNormalVectors()) o.v3(n);
      ic++;
    } else if (c.getConstraintType() == ConstraintTypeLoop) {
      for (auto &a : cs.loopConstraints[il]->getConstraintAxes()) o.sv(a);
      il++;
    }
  }
  o.os << " | names";
  for (auto &n : cs.name) o.os << ' ' << (n.empty() ? "-" : n);
  return o.os.str();
}

}  // namespace luaops

// returns the text to emit ("" = nothing)
static std::string luaOp(const std::string &cmd, Toks &t, LuaDescState &ld, std::unique_ptr<Model> &m, CSState &C,
                         std::map<std::string, std::string> &files, const std::string &tag) {
  using namespace luaops;
  if (cmd == "csfull") return csFull(*C.cs);
  if (cmd == "luadesc") {
    std::string sub = t.next();
    if (sub == "begin") { ld.reset(); ld.open = true; ld.file = t.next(); }
    else if (!ld.open) return "";
    else if (sub == "gravity") ld.head << "  gravity = " << vecN(t, 3) << ",\n";
    else if (sub == "frame") frameLine(t, ld.frames);
    else if (sub == "cset") {
      if (ld.inSet) ld.sets << "    },\n";
      ld.sets << "    " << t.next() << " = {\n";
      ld.inSet = true;
    }
    else if (sub == "con") conLine(t, ld.sets);
    else if (sub == "end") {
      std::string path = "/tmp/verif_lua_" + std::to_string((long) getpid()) + "_" + tag + "_d_" + ld.file + ".lua";
      std::ofstream f(path);
      f << "model = {\n" << ld.head.str() << "  frames = {\n" << ld.frames.str() << "  },\n";
      if (ld.inSet) f << "  constraint_sets = {\n" << ld.sets.str() << "    },\n  },\n";
      f << "}\nreturn model\n";
      f.close();
      files[ld.file] = path;
      ld.reset();
    }
    return "";
  }
  // ldload <file> [<constraint set name>]: replaces the current model (and constraint set)
  std::string nm = t.next();
  std::string csname = t.pos < t.l.size() ? t.next() : "";
  m.reset(new Model());
  C.fresh();
  if (!files.count(nm)) return "err noFile";
  std::vector<ConstraintSet> sets(csname.empty() ? 0 : 1);
  std::string res = "ok";
  try {
    if (csname.empty()) {
      Addons::LuaModelReadFromFile(files[nm].c_str(), m.get(), false);
    } else {
      std::vector<std::string> names; names.push_back(csname);
      Addons::LuaModelReadFromFileWithConstraints(files[nm].c_str(), m.get(), sets, names, false);
    }
  } catch (Errors::RBDLError &e) {
    res = "err " + errKindLua(e.what());
  }
  // also after an exception: what the loader had put into the caller's set before it threw
  if (!csname.empty()) C.cs.reset(new ConstraintSet(sets[0]));
  return res;
}
