// `alg <op> args...`: the header-level operations of SpatialAlgebraOperators.h, Quaternion.h,
// rbdl_mathutils on explicit arguments (C16 correspondence / translator validation).
#pragma once
#include "common.h"

static SpatialRigidBodyInertia readRBI(Toks &t) {
  double m = t.rat(); Vector3d h = t.v3();
  double a[6]; for (int i = 0; i < 6; i++) a[i] = t.rat();
  return SpatialRigidBodyInertia(m, h, a[0], a[1], a[2], a[3], a[4], a[5]);
}
static void outRBI(Out &o, const SpatialRigidBodyInertia &I) {
  o.num(I.m); o.v3(I.h); o.num(I.Ixx); o.num(I.Iyx); o.num(I.Iyy); o.num(I.Izx); o.num(I.Izy); o.num(I.Izz);
}
static void outSM(Out &o, const SpatialMatrix &A) { for (int r = 0; r < 6; r++) for (int c = 0; c < 6; c++) o.num(A(r, c)); }
static Quaternion readQuat(Toks &t) { double x = t.rat(), y = t.rat(), z = t.rat(), w = t.rat(); return Quaternion(x, y, z, w); }
static void outQuat(Out &o, const Quaternion &q) { for (int i = 0; i < 4; i++) o.num(q[i]); }

#include "algops2.h"

static std::string algOp(Toks &t) {
  std::string op = t.next();
  Out o;
  if (op == "apply") { SpatialTransform X = t.xt(); SpatialVector v = t.sv(); o.sv(X.apply(v)); }
  else if (op == "applyTranspose") { SpatialTransform X = t.xt(); SpatialVector v = t.sv(); o.sv(X.applyTranspose(v)); }
  else if (op == "applyAdjoint") { SpatialTransform X = t.xt(); SpatialVector v = t.sv(); o.sv(X.applyAdjoint(v)); }
  else if (op == "inverse") { SpatialTransform X = t.xt(); o.xt(X.inverse()); }
  else if (op == "mul") { SpatialTransform X = t.xt(); SpatialTransform Y = t.xt(); o.xt(X * Y); }
  else if (op == "mulSelf") { SpatialTransform X = t.xt(); X *= X; o.xt(X); }   // right operand is the same object
  else if (op == "mulAssign") { SpatialTransform X = t.xt(); SpatialTransform Y = t.xt(); X *= Y; o.xt(X); }
  else if (op == "toMatrix") { SpatialTransform X = t.xt(); outSM(o, X.toMatrix()); }
  else if (op == "toMatrixAdjoint") { SpatialTransform X = t.xt(); outSM(o, X.toMatrixAdjoint()); }
  else if (op == "toMatrixTranspose") { SpatialTransform X = t.xt(); outSM(o, X.toMatrixTranspose()); }
  else if (op == "rbiMul") { SpatialRigidBodyInertia I = readRBI(t); SpatialVector v = t.sv(); o.sv(I * v); }
  else if (op == "rbiAdd") { SpatialRigidBodyInertia A = readRBI(t); SpatialRigidBodyInertia B = readRBI(t); outRBI(o, A + B); }
  else if (op == "rbiToMatrix") { SpatialRigidBodyInertia I = readRBI(t); outSM(o, I.toMatrix()); }
  else if (op == "rbiSetSpatialMatrix") { SpatialRigidBodyInertia I = readRBI(t); SpatialMatrix M; I.setSpatialMatrix(M); outSM(o, M); }
  else if (op == "rbiFromMatrix") { SpatialRigidBodyInertia I = readRBI(t); SpatialRigidBodyInertia J; J.createFromMatrix(I.toMatrix()); outRBI(o, J); }
  else if (op == "rbiFromMassComInertiaC") { double m = t.rat(); Vector3d c = t.v3(); Matrix3d I = t.m3(); outRBI(o, SpatialRigidBodyInertia::createFromMassComInertiaC(m, c, I)); }
  else if (op == "applyRBI") { SpatialTransform X = t.xt(); SpatialRigidBodyInertia I = readRBI(t); outRBI(o, X.apply(I)); }
  else if (op == "applyTransposeRBI") { SpatialTransform X = t.xt(); SpatialRigidBodyInertia I = readRBI(t); outRBI(o, X.applyTranspose(I)); }
  else if (op == "crossm") { SpatialVector a = t.sv(); SpatialVector b = t.sv(); o.sv(crossm(a, b)); }
  else if (op == "crossf") { SpatialVector a = t.sv(); SpatialVector b = t.sv(); o.sv(crossf(a, b)); }
  else if (op == "crossmMat") { SpatialVector a = t.sv(); outSM(o, crossm(a)); }
  else if (op == "crossfMat") { SpatialVector a = t.sv(); outSM(o, crossf(a)); }
  else if (op == "Xrot") { double q = t.rat(); t.rat(); t.rat(); Vector3d a = t.v3(); o.xt(Xrot(q, a)); }
  else if (op == "Xrotx") { double q = t.rat(); t.rat(); t.rat(); o.xt(Xrotx(q)); }
  else if (op == "Xroty") { double q = t.rat(); t.rat(); t.rat(); o.xt(Xroty(q)); }
  else if (op == "Xrotz") { double q = t.rat(); t.rat(); t.rat(); o.xt(Xrotz(q)); }
  else if (op == "Xtrans") { Vector3d r = t.v3(); o.xt(Xtrans(r)); }
  else if (op == "skew") { Vector3d r = t.v3(); o.m3(VectorCrossMatrix(r)); }
  else if (op == "parallelAxis") { Matrix3d I = t.m3(); double m = t.rat(); Vector3d c = t.v3(); o.m3(parallel_axis(I, m, c)); }
  else if (op == "qmul") { Quaternion p = readQuat(t); Quaternion q = readQuat(t); outQuat(o, p * q); }
  else if (op == "qconj") { Quaternion p = readQuat(t); outQuat(o, p.conjugate()); }
  else if (op == "qtoMatrix") { Quaternion p = readQuat(t); o.m3(p.toMatrix()); }
  else if (op == "qrotate") { Quaternion p = readQuat(t); Vector3d v = t.v3(); o.v3(p.rotate(v)); }
  else if (op == "qomegaToQDot") { Quaternion p = readQuat(t); Vector3d v = t.v3(); Vector4d d = p.omegaToQDot(v); for (int i = 0; i < 4; i++) o.num(d[i]); }
  else if (op == "qfromMatrix") { Matrix3d M = t.m3(); outQuat(o, Quaternion::fromMatrix(M)); }
  else if (op == "qroundtrip") { Quaternion p = readQuat(t); Quaternion r = Quaternion::fromMatrix(p.toMatrix()); o.num(r.squaredNorm()); o.m3(r.toMatrix()); }
  else if (op == "gauss") {
    unsigned n = t.nat();
    MatrixNd A(n, n); VectorNd b(n), x = VectorNd::Zero(n);
    for (unsigned r = 0; r < n; r++) for (unsigned c = 0; c < n; c++) A(r, c) = t.rat();
    for (unsigned r = 0; r < n; r++) b[r] = t.rat();
    LinSolveGaussElimPivot(A, b, x);
    o.vec(x);
  }
  else if (!algOp2(op, t, o)) o.str("bad-alg");
  return op + " " + o.os.str();
}
