// the protocol driver plus the Lua loader addon (C19, C20)
#define VERIF_WITH_LUA 1
#include "driver.cc"
