// `geo <op> args...`: the geometry / muscle addons (C18): curve factories, SmoothSegmentedFunction
// evaluation, shift / scale, getters, direct calls of the Bezier toolkit, torque muscles.
// One output line per `geo` line.  The data members of SmoothSegmentedFunction are read directly
// (the public getters are themselves under test: `geo getcp`).
#pragma once
#include "common.h"
#include <limits>
#define private public
#define protected public
#include "geometry/SmoothSegmentedFunction.h"
#undef private
#undef protected
#include "geometry/SegmentedQuinticBezierToolkit.h"
#include "muscle/MuscleFunctionFactory.h"
#include "muscle/TorqueMuscleFunctionFactory.h"
#include "muscle/Millard2016TorqueMuscle.h"

using namespace RigidBodyDynamics::Addons::Geometry;
using namespace RigidBodyDynamics::Addons::Muscle;

struct GeoState {
  SmoothSegmentedFunction f;
  bool has = false;
  std::unique_ptr<Millard2016TorqueMuscle> tm;
};
static GeoState &geoState() { static GeoState g; return g; }

// the constants of SmoothSegmentedFunction.cc (file-static there)
static const double GEO_UTOL = std::numeric_limits<double>::epsilon() * 1e6;
static const int GEO_MAXITER = 20;

static void geoDump(Out &o, const SmoothSegmentedFunction &f) {
  o.str("ok");
  o.str(std::to_string(f._mXVec.size()));
  o.num(f._x0); o.num(f._x1); o.num(f._y0); o.num(f._y1); o.num(f._dydx0); o.num(f._dydx1);
  for (size_t s = 0; s < f._mXVec.size(); s++) for (int j = 0; j < 6; j++) o.num(f._mXVec[s][j]);
  for (size_t s = 0; s < f._mYVec.size(); s++) for (int j = 0; j < 6; j++) o.num(f._mYVec[s][j]);
}

static VectorNd readP6(Toks &t) { VectorNd p(6); for (int i = 0; i < 6; i++) p[i] = t.rat(); return p; }

static bool geoCreate(const std::string &fac, Toks &t, SmoothSegmentedFunction &f) {
  std::vector<double> a;
  while (t.pos < t.l.size()) a.push_back(t.rat());
  size_t n = a.size();
  const std::string nm = "c18";
  typedef MuscleFunctionFactory M;
  typedef TorqueMuscleFunctionFactory T;
  if (fac == "fal" && n == 7) M::createFiberActiveForceLengthCurve(a[0], a[1], a[2], a[3], a[4], a[5], a[6], nm, f);
  else if (fac == "fv" && n == 8) M::createFiberForceVelocityCurve(a[0], a[1], a[2], a[3], a[4], a[5], a[6], a[7], nm, f);
  else if (fac == "fvinv" && n == 8) M::createFiberForceVelocityInverseCurve(a[0], a[1], a[2], a[3], a[4], a[5], a[6], a[7], nm, f);
  else if (fac == "fcphi" && n == 3) M::createFiberCompressiveForcePennationCurve(a[0], a[1], a[2], nm, f);
  else if (fac == "fccos" && n == 3) M::createFiberCompressiveForceCosPennationCurve(a[0], a[1], a[2], nm, f);
  else if (fac == "fcl" && n == 3) M::createFiberCompressiveForceLengthCurve(a[0], a[1], a[2], nm, f);
  else if (fac == "fpe" && n == 5) M::createFiberForceLengthCurve(a[0], a[1], a[2], a[3], a[4], nm, f);
  else if (fac == "tendon" && n == 4) M::createTendonForceLengthCurve(a[0], a[1], a[2], a[3], nm, f);
  else if (fac == "a07ta" && n == 2) T::createAnderson2007ActiveTorqueAngleCurve(a[0], a[1], nm, f);
  else if (fac == "a07tv" && n == 5) T::createAnderson2007ActiveTorqueVelocityCurve(a[0], a[1], a[2], a[3], a[4], nm, f);
  else if (fac == "a07tp" && n == 6) T::createAnderson2007PassiveTorqueAngleCurve(a[0], a[1], a[2], a[3], a[4], a[5], nm, f);
  else if (fac == "tv2" && n == 2) T::createTorqueVelocityCurve(a[0], a[1], nm, f);
  else if (fac == "tv6" && n == 6) T::createTorqueVelocityCurve(a[0], a[1], a[2], a[3], a[4], a[5], nm, f);
  else if (fac == "tp2" && n == 2) T::createPassiveTorqueAngleCurve(a[0], a[1], nm, f);
  else if (fac == "tp5" && n == 5) T::createPassiveTorqueAngleCurve(a[0], a[1], a[2], a[3], a[4], nm, f);
  else if (fac == "gauss2" && n == 2) T::createGaussianShapedActiveTorqueAngleCurve(a[0], a[1], nm, f);
  else if (fac == "gauss5" && n == 5) T::createGaussianShapedActiveTorqueAngleCurve(a[0], a[1], a[2], a[3], a[4], nm, f);
  else if (fac == "tt1" && n == 1) T::createTendonTorqueAngleCurve(a[0], nm, f);
  else if (fac == "tt4" && n == 4) T::createTendonTorqueAngleCurve(a[0], a[1], a[2], a[3], nm, f);
  else if (fac == "damp" && n == 1) T::createDampingBlendingCurve(a[0], nm, f);
  else if (fac == "raw") {
    // raw <nseg> x0 x1 y0 y1 dydx0 dydx1 X(6*nseg) Y(6*nseg): the public constructor
    size_t ns = (size_t) a[0];
    if (n != 7 + 12 * ns) return false;
    MatrixNd mX(6, ns), mY(6, ns);
    for (size_t s = 0; s < ns; s++) for (int j = 0; j < 6; j++) { mX(j, s) = a[7 + 6 * s + j]; mY(j, s) = a[7 + 6 * ns + 6 * s + j]; }
    f = SmoothSegmentedFunction(mX, mY, a[1], a[2], a[3], a[4], a[5], a[6], nm);
  }
  else return false;
  return true;
}

// region / section / Bezier parameter exactly as calcValue / calcDerivative determine them
static void geoLocate(const SmoothSegmentedFunction &f, double x, std::string &region, int &idx, double &u) {
  idx = 0; u = 0.;
  if (x >= f._x0 && x <= f._x1) {
    region = "M";
    idx = SegmentedQuinticBezierToolkit::calcIndex(x, f._mXVec);
    u = SegmentedQuinticBezierToolkit::calcU(x, f._mXVec[idx], GEO_UTOL, GEO_MAXITER);
  } else region = (x < f._x0) ? "L" : "R";
}

// abscissa / ordinate tokens: a rational, or relative to the current curve
//   @k:i      knot i (0..nseg): first x value of section i, last x value of the last section
//   @m:i:t    X[i][0] + t (X[i][5] - X[i][0])         @l:t  x0 - t (x1 - x0)     @r:t  x1 + t (x1 - x0)
//   @y:i:t    Y[i][0] + t (Y[i][5] - Y[i][0])         @yl:t y0 - t (y1 - y0)     @yr:t y1 + t (y1 - y0)
static double geoCoord(const SmoothSegmentedFunction &f, Toks &t) {
  std::string s = t.next();
  double v = 0.;
  if (s.empty() || s[0] != '@') { if (!Toks::parseRat(s, v)) t.ok = false; return v; }
  std::vector<std::string> parts;
  size_t st = 0, p;
  while ((p = s.find(':', st)) != std::string::npos) { parts.push_back(s.substr(st, p - st)); st = p + 1; }
  parts.push_back(s.substr(st));
  size_t ns = f._mXVec.size();
  auto num = [&](size_t k) { double x = 0.; if (k >= parts.size() || !Toks::parseRat(parts[k], x)) t.ok = false; return x; };
  auto idx = [&](size_t k) { size_t i = (size_t) num(k); if (i >= ns) { t.ok = false; i = 0; } return i; };
  if (ns == 0) { t.ok = false; return 0.; }
  if (parts[0] == "@k") { size_t i = (size_t) num(1); if (i > ns) { t.ok = false; return 0.; } return i < ns ? f._mXVec[i][0] : f._mXVec[ns - 1][5]; }
  if (parts[0] == "@m") { size_t i = idx(1); double tt = num(2); return f._mXVec[i][0] + tt * (f._mXVec[i][5] - f._mXVec[i][0]); }
  if (parts[0] == "@l") { double tt = num(1); return f._x0 - tt * (f._x1 - f._x0); }
  if (parts[0] == "@r") { double tt = num(1); return f._x1 + tt * (f._x1 - f._x0); }
  if (parts[0] == "@y") { size_t i = idx(1); double tt = num(2); return f._mYVec[i][0] + tt * (f._mYVec[i][5] - f._mYVec[i][0]); }
  if (parts[0] == "@yl") { double tt = num(1); return f._y0 - tt * (f._y1 - f._y0); }
  if (parts[0] == "@yr") { double tt = num(1); return f._y1 + tt * (f._y1 - f._y0); }
  t.ok = false;
  return 0.;
}

// magnitude of the terms that cancel in d^k y / dx^k at (section idx, u): the comparison of a
// derivative is relative to this number (it is printed as the last token of `geo eval`)
//   A_j(p) = sum_i |w_i^(j)(u)| |p_i|,  r = max(1, max_{2<=m<=k} A_m(X)/|x'|),
//   cond_k = sum_{j=1..k} A_j(Y) r^(k-j) / |x'|^k
static double geoCond(const SmoothSegmentedFunction &f, int idx, double u, int order) {
  if (order < 1) return 0.;
  const VectorNd &X = f._mXVec[idx], &Y = f._mYVec[idx];
  auto A = [&](const VectorNd &p, int j) {
    double s = 0.;
    for (int i = 0; i < 6; i++) {
      VectorNd e = VectorNd::Zero(6); e[i] = 1.;
      s += fabs(SegmentedQuinticBezierToolkit::calcQuinticBezierCurveDerivU(u, e, j)) * fabs(p[i]);
    }
    return s;
  };
  double xp = fabs(SegmentedQuinticBezierToolkit::calcQuinticBezierCurveDerivU(u, X, 1));
  if (xp == 0.) return 0.;
  double r = 1.;
  for (int m = 2; m <= order; m++) r = std::max(r, A(X, m) / xp);
  double s = 0.;
  for (int j = 1; j <= order; j++) s += A(Y, j) * pow(r, order - j);
  return s / pow(xp, order);
}

#include "geotm.h"

static std::string geoOp(Toks &t) {
  GeoState &g = geoState();
  std::string op = t.next();
  Out o;
  try {
    if (op == "new" || op == "newopt") {   // newopt: the factory may legitimately refuse the parameters
      std::string fac = t.next();
      g.has = false;
      g.f = SmoothSegmentedFunction();
      if (!geoCreate(fac, t, g.f) || !t.ok) o.str("bad-geo");
      else { g.has = true; geoDump(o, g.f); }
    }
    else if (op == "shift") { double a = t.rat(), b = t.rat(); g.f.shift(a, b); geoDump(o, g.f); }
    else if (op == "scale") { double a = t.rat(), b = t.rat(); g.f.scale(a, b); geoDump(o, g.f); }
    else if (op == "dom") { VectorNd d = g.f.getCurveDomain(); o.num(d[0]); o.num(d[1]); }
    else if (op == "getcp") {
      size_t ns = g.f._mXVec.size();
      // entries the getters do not write keep the marker value
      MatrixNd mx = MatrixNd::Constant(ns, 6, -777.), my = MatrixNd::Constant(ns, 6, -777.);
      g.f.getXControlPoints(mx);
      g.f.getYControlPoints(my);
      o.str(std::to_string(mx.rows())); o.str(std::to_string(mx.cols())); o.mat(mx);
      o.str(std::to_string(my.rows())); o.str(std::to_string(my.cols())); o.mat(my);
    }
    else if (op == "eval") {
      int order = (int) t.nat(); double x = geoCoord(g.f, t);
      std::string region; int idx; double u;
      geoLocate(g.f, x, region, idx, u);
      double v = g.f.calcDerivative(x, order);
      o.str(region); o.str(std::to_string(idx)); o.num(u); o.num(v);
      o.num(region == "M" ? geoCond(g.f, idx, u, order) : 0.);
    }
    else if (op == "inv") {
      double y = geoCoord(g.f, t), guess = geoCoord(g.f, t);
      double xinv = g.f.calcInverseValue(y, guess);
      // the section calcInverseValue selects, and the parameter it finds there
      int sidx = -1; double best = std::numeric_limits<double>::infinity();
      for (size_t i = 0; i < g.f._mXVec.size(); i++) {
        double yl = y - g.f._mYVec[i][0], yr = g.f._mYVec[i][5] - y;
        double xd = fabs(guess - g.f._mXVec[i][0]) + fabs(g.f._mXVec[i][5] - guess);
        if (yl * yr >= 0 && xd < best) { sidx = (int) i; best = xd; }
      }
      if (std::isnan(xinv)) { o.str("nan"); }
      else {
        double uy = 0.;
        if (sidx >= 0) uy = SegmentedQuinticBezierToolkit::calcU(y, g.f._mYVec[sidx], GEO_UTOL, GEO_MAXITER);
        std::string region; int idx; double u;
        geoLocate(g.f, xinv, region, idx, u);
        double v = g.f.calcValue(xinv);
        o.str(sidx >= 0 ? "seg" : "lin"); o.str(std::to_string(sidx >= 0 ? sidx : 0)); o.num(uy); o.num(xinv);
        o.str(region); o.str(std::to_string(idx)); o.num(u); o.num(v);
      }
    }
    else if (op == "bezu") {
      double u = t.rat(); VectorNd p = readP6(t);
      o.num(SegmentedQuinticBezierToolkit::calcQuinticBezierCurveVal(u, p));
      for (int k = 1; k <= 6; k++) o.num(SegmentedQuinticBezierToolkit::calcQuinticBezierCurveDerivU(u, p, k));
    }
    else if (op == "bezd") {
      int order = (int) t.nat(); double u = t.rat(); VectorNd p = readP6(t); VectorNd q = readP6(t);
      o.num(SegmentedQuinticBezierToolkit::calcQuinticBezierCurveDerivDYDX(u, p, q, order));
    }
    else if (op == "corner") {
      double a[7]; for (int i = 0; i < 7; i++) a[i] = t.rat();
      MatrixNd P = SegmentedQuinticBezierToolkit::calcQuinticBezierCornerControlPoints(a[0], a[1], a[2], a[3], a[4], a[5], a[6]);
      o.str("ok");
      for (int j = 0; j < 6; j++) o.num(P(j, 0));
      for (int j = 0; j < 6; j++) o.num(P(j, 1));
    }
    else if (op == "calcu") {
      double x = t.rat(); VectorNd p = readP6(t);
      o.num(SegmentedQuinticBezierToolkit::calcU(x, p, GEO_UTOL, GEO_MAXITER));
    }
    else if (op == "tm") geoTm(g, t, o);
    else o.str("bad-geo");
  } catch (Errors::RBDLError &e) {
    Out e2; e2.str("err");
    return op + " " + e2.os.str();
  }
  if (!t.ok) { Out e2; e2.str("bad-geo"); return op + " " + e2.os.str(); }
  return op + " " + o.os.str();
}
