// `call ENB` of the line protocol (C12, energy balance): "along the forward-dynamics solution
// d(KE+PE)/dt equals the power of the applied generalized and external forces".
//
// Printed (all computed with the real library):
//   qddot = ForwardDynamics(q, qdot, tau, f_ext)                                  dof_count numbers
//   CalcKineticEnergy(q, qdot), CalcPotentialEnergy(q)                            2 numbers
//   three finite-difference estimates of d(KE+PE)/dt at t = 0 along the curve
//       q(t) = q (+) (t qdot + t^2/2 qddot),   qdot(t) = qdot + t qddot           3 numbers
//     (2nd-order central difference with h = 1e-5; 4th-order central differences with H = 1e-3 and H/2).
//     Coordinates of spherical joints: the quaternion moves with Qdot = 1/2 Q (x) (omega, 0),
//     Qddot = 1/2 Qdot (x) (omega, 0) + 1/2 Q (x) (omegadot, 0) (Hamilton product, scalar last; the documented
//     meaning of the velocity coordinates: body-frame angular velocity), renormalised, read and written
//     through Model::GetQuaternion / Model::SetQuaternion.
// The Lean side (lean/Rbdl/EnbDriver.lean) evaluates the first-principles energy rates at (q, qdot, qddot)
// exactly and compares.  The routine ends with the two energy calls at (q, qdot) again, so the kinematic
// cache it leaves is the one of  FD; KE; PE  (what the executable model reproduces).
#pragma once
#include "common.h"

struct EnbCurve {
  Model &m;
  const VectorNd &q, &qd, &qdd;
  EnbCurve(Model &m_, const VectorNd &q_, const VectorNd &qd_, const VectorNd &qdd_) : m(m_), q(q_), qd(qd_), qdd(qdd_) {}

  static void qdotOf(const double Q[4], const double o[3], double out[4]) {
    out[0] = 0.5 * (Q[3] * o[0] + Q[1] * o[2] - Q[2] * o[1]);
    out[1] = 0.5 * (Q[3] * o[1] + Q[2] * o[0] - Q[0] * o[2]);
    out[2] = 0.5 * (Q[3] * o[2] + Q[0] * o[1] - Q[1] * o[0]);
    out[3] = 0.5 * (-Q[0] * o[0] - Q[1] * o[1] - Q[2] * o[2]);
  }

  double energy(double t) {
    VectorNd qt = q, vt = qd;
    for (unsigned i = 0; i < m.dof_count; i++) {
      qt[i] = q[i] + t * qd[i] + 0.5 * t * t * qdd[i];
      vt[i] = qd[i] + t * qdd[i];
    }
    for (unsigned b = 1; b < m.mBodies.size(); b++) {
      if (m.mJoints[b].mJointType != JointTypeSpherical) continue;
      unsigned k = m.mJoints[b].q_index;
      Quaternion Qq = m.GetQuaternion(b, q);
      double Q[4] = {Qq[0], Qq[1], Qq[2], Qq[3]};
      double om[3] = {qd[k], qd[k + 1], qd[k + 2]}, omd[3] = {qdd[k], qdd[k + 1], qdd[k + 2]};
      double Qd[4], A[4], B[4], Qt[4];
      qdotOf(Q, om, Qd); qdotOf(Qd, om, A); qdotOf(Q, omd, B);
      double n2 = 0.;
      for (int j = 0; j < 4; j++) { Qt[j] = Q[j] + t * Qd[j] + 0.5 * t * t * (A[j] + B[j]); n2 += Qt[j] * Qt[j]; }
      double n = sqrt(n2);
      m.SetQuaternion(b, Quaternion(Qt[0] / n, Qt[1] / n, Qt[2] / n, Qt[3] / n), qt);
    }
    return Utils::CalcKineticEnergy(m, qt, vt, true) + Utils::CalcPotentialEnergy(m, qt, true);
  }
  double d2(double h) { return (energy(h) - energy(-h)) / (2. * h); }
  double d4(double h) { return (-energy(2. * h) + 8. * energy(h) - 8. * energy(-h) + energy(-2. * h)) / (12. * h); }
};

static bool enbCall(const std::string &name, Model &m, VectorNd &q, VectorNd &qd, VectorNd &tau,
                    std::vector<SpatialVector> *fe, Out &o) {
  if (name != "ENB") return false;
  VectorNd qdd = VectorNd::Zero(m.dof_count);
  ForwardDynamics(m, q, qd, tau, qdd, fe);
  double ke = Utils::CalcKineticEnergy(m, q, qd, true);
  double pe = Utils::CalcPotentialEnergy(m, q, true);
  o.vec(qdd); o.num(ke); o.num(pe);
  bool finite = std::isfinite(ke) && std::isfinite(pe);
  for (int i = 0; i < qdd.size(); i++) finite = finite && std::isfinite(qdd[i]);
  if (finite) {
    EnbCurve c(m, q, qd, qdd);
    o.num(c.d2(1e-5)); o.num(c.d4(1e-3)); o.num(c.d4(5e-4));
    // restore the kinematic cache of  KE; PE  at (q, qdot)
    Utils::CalcKineticEnergy(m, q, qd, true);
    Utils::CalcPotentialEnergy(m, q, true);
  } else {
    o.str("nan"); o.str("nan"); o.str("nan");
  }
  return true;
}
