// C++ side of the correspondence check: executes the operations of a case file (stdin) on the
// real library built from /repo's working tree and prints one result line per call.
// Protocol: tools/PROTOCOL.md.  The Lean driver (lean/Main.lean) reads the same file.
#include "common.h"
#include "algops.h"
#include "csops.h"
#include "iterops.h"
#include "enbops.h"
#ifdef VERIF_WITH_BALANCE
#include "balops.h"
#endif
#ifdef VERIF_WITH_GEO
#include "geoops.h"
#endif
#ifdef VERIF_WITH_LUA
#include "luamodel/luamodel.h"
#include <fstream>
#include <unistd.h>
#include "luaops.h"
#endif

struct State {
  std::unique_ptr<Model> m;
  std::vector<std::unique_ptr<CustomJoint>> customs;
  VectorNd q, qd, qdd, tau;
  std::vector<SpatialVector> fext;
  bool has_fext = false;
  std::string caseId = "none";
  unsigned int callNo = 0;
  CSState C;
  std::ostream *out = &std::cout;
  std::istream *in = &std::cin;
  std::string tag;       // distinguishes temporary files of concurrent interpreters
  std::map<std::string, std::string> luafiles;
#ifdef VERIF_WITH_LUA
  std::unique_ptr<std::ofstream> luaOut;
  LuaDescState ld;
#endif
  void fresh(const std::string &id) {
    C.fresh();
    m.reset(new Model());
    customs.clear();
    q = VectorNd::Zero(0); qd = q; qdd = q; tau = q;
    fext.clear(); has_fext = false;
    caseId = id; callNo = 0;
  }
};

static void emit(State &s, const std::string &name, const std::string &body) {
  (*s.out) << s.caseId << "." << s.callNo << " " << name << " " << body << "\n";
  s.callNo++;
}

static std::string errKind(const std::string &msg) {
  if (msg.find("already exists") != std::string::npos) return "duplicateName";
  if (msg.find("nvalid joint type") != std::string::npos) return "invalidJoint";
  if (msg.find("zero mass") != std::string::npos) return "zeroMass";
  if (msg.find("not supported for fixed") != std::string::npos) return "fixedSetFrame";
  return "other";
}

static JointType jtOfName(const std::string &n) {
  if (n == "RevoluteX") return JointTypeRevoluteX;
  if (n == "RevoluteY") return JointTypeRevoluteY;
  if (n == "RevoluteZ") return JointTypeRevoluteZ;
  if (n == "Spherical") return JointTypeSpherical;
  if (n == "EulerZYX") return JointTypeEulerZYX;
  if (n == "EulerXYZ") return JointTypeEulerXYZ;
  if (n == "EulerYXZ") return JointTypeEulerYXZ;
  if (n == "EulerZXY") return JointTypeEulerZXY;
  if (n == "TranslationXYZ") return JointTypeTranslationXYZ;
  if (n == "Fixed") return JointTypeFixed;
  if (n == "FloatingBase") return JointTypeFloatingBase;
  return JointTypeUndefined;
}

static std::string joinU(const std::vector<unsigned int> &v) {
  std::ostringstream o;
  for (size_t i = 0; i < v.size(); i++) { if (i) o << ' '; o << v[i]; }
  return o.str();
}

static std::string dumpModel(Model &m) {
  std::ostringstream o;
  o << "nb " << m.mBodies.size() << " | nj " << m.mJoints.size() << " | dof " << m.dof_count
    << " | qs " << m.q_size << " | qds " << m.qdot_size << " | prev " << m.previously_added_body_id;
  o << " | lambda " << joinU(m.lambda);
  o << " | lambdaq " << joinU(m.lambda_q);
  o << " | mu ";
  for (size_t i = 0; i < m.mu.size(); i++) {
    if (i) o << ' ';
    o << '[';
    for (size_t k = 0; k < m.mu[i].size(); k++) { if (k) o << ','; o << m.mu[i][k]; }
    o << ']';
  }
  o << " | jt ";
  for (size_t i = 0; i < m.mJoints.size(); i++) { if (i) o << ' '; o << (int) m.mJoints[i].mJointType; }
  o << " | jdof ";
  for (size_t i = 0; i < m.mJoints.size(); i++) { if (i) o << ' '; o << m.mJoints[i].mDoFCount; }
  o << " | jq ";
  for (size_t i = 0; i < m.mJoints.size(); i++) { if (i) o << ' '; o << m.mJoints[i].q_index; }
  o << " | jc ";
  for (size_t i = 0; i < m.mJoints.size(); i++) {
    if (i) o << ' ';
    // only meaningful for custom joints (several Joint constructors leave it uninitialised)
    if (m.mJoints[i].mJointType == JointTypeCustom) o << m.mJoints[i].custom_joint_index; else o << '-';
  }
  o << " | w3 " << joinU(m.multdof3_w_index);
  o << " | ncustom " << m.mCustomJoints.size();
  o << " | virt ";
  for (size_t i = 0; i < m.mBodies.size(); i++) { if (i) o << ' '; o << (m.mBodies[i].mIsVirtual ? 1 : 0); }
  o << " | nfixed " << m.mFixedBodies.size();
  o << " | fpar ";
  for (size_t i = 0; i < m.mFixedBodies.size(); i++) { if (i) o << ' '; o << m.mFixedBodies[i].mMovableParent; }
  o << " | order " << joinU(m.mJointUpdateOrder);
  o << " | names ";
  { bool first = true;
    for (auto &p : m.mBodyNameMap) { if (!first) o << ' '; first = false; o << p.first << '=' << p.second; } }
  o << " | sizes " << m.v.size() << ' ' << m.a.size() << ' ' << m.S.size() << ' ' << m.v_J.size() << ' '
    << m.c_J.size() << ' ' << m.multdof3_S.size() << ' ' << m.multdof3_U.size() << ' '
    << m.multdof3_Dinv.size() << ' ' << m.multdof3_u.size() << ' ' << m.c.size() << ' ' << m.IA.size()
    << ' ' << m.pA.size() << ' ' << m.U.size() << ' ' << m.d.size() << ' ' << m.u.size() << ' '
    << m.f.size() << ' ' << m.Ic.size() << ' ' << m.hc.size() << ' ' << m.hdotc.size() << ' '
    << m.X_lambda.size() << ' ' << m.X_base.size() << ' ' << m.X_T.size() << ' ' << m.I.size() << ' '
    << m.lambda.size() << ' ' << m.mu.size() << ' ' << m.multdof3_w_index.size();
  return o.str();
}

static std::string dumpParams(Model &m) {
  Out o;
  for (auto &b : m.mBodies) { o.num(b.mMass); o.v3(b.mCenterOfMass); o.m3(b.mInertia); }
  for (auto &X : m.X_T) o.xt(X);
  for (auto &I : m.I) { o.num(I.m); o.v3(I.h); o.num(I.Ixx); o.num(I.Iyx); o.num(I.Iyy); o.num(I.Izx); o.num(I.Izy); o.num(I.Izz); }
  for (auto &j : m.mJoints) for (unsigned k = 0; k < j.mDoFCount; k++) o.sv(j.mJointAxes[k]);
  for (auto &f : m.mFixedBodies) { o.num(f.mMass); o.v3(f.mCenterOfMass); o.m3(f.mInertia); o.xt(f.mParentTransform); }
  o.v3(m.gravity);
  return o.os.str();
}

struct JSpec { bool custom = false; std::string kind; Joint joint; };

static JSpec parseJSpec(Toks &t) {
  JSpec r;
  std::string k = t.next();
  if (k == "T") { r.joint = Joint(jtOfName(t.next())); }
  else if (k == "R") { Vector3d a = t.v3(); r.joint = Joint(JointTypeRevolute, a); }
  else if (k == "P") { Vector3d a = t.v3(); r.joint = Joint(JointTypePrismatic, a); }
  else if (k == "A") {
    unsigned n = t.nat();
    std::vector<SpatialVector> a;
    for (unsigned i = 0; i < n; i++) a.push_back(t.sv());
    if (!t.ok) return r;
    switch (n) {
      case 1: r.joint = Joint(a[0]); break;
      case 2: r.joint = Joint(a[0], a[1]); break;
      case 3: r.joint = Joint(a[0], a[1], a[2]); break;
      case 4: r.joint = Joint(a[0], a[1], a[2], a[3]); break;
      case 5: r.joint = Joint(a[0], a[1], a[2], a[3], a[4]); break;
      case 6: r.joint = Joint(a[0], a[1], a[2], a[3], a[4], a[5]); break;
      default: t.ok = false;
    }
  }
  else if (k == "C") { r.custom = true; r.kind = t.next(); }
  else if (k == "U") { r.joint = Joint(); }
  else t.ok = false;
  return r;
}

static Body parseBody(Toks &t) {
  double mass = t.rat(); Vector3d c = t.v3(); Matrix3d I = t.m3(); unsigned v = t.nat();
  Body b(mass, c, I);
  b.mIsVirtual = (v != 0);
  return b;
}

static MatrixNd ginit(Toks &t, int rows, int cols) {
  MatrixNd G = MatrixNd::Zero(rows, cols);
  std::string k = t.next();
  if (k != "z") {
    unsigned seed = t.nat();
    for (int r = 0; r < rows; r++) for (int c = 0; c < cols; c++) G(r, c) = pz(seed, 40, r, c);
  }
  return G;
}

static void doCall(State &s, Toks &t) {
  std::string name = t.next();
  Model &m = *s.m;
  Out o;
  std::vector<SpatialVector> *fe = s.has_fext ? &s.fext : NULL;
  if (name == "ID") {
    VectorNd tau = VectorNd::Zero(m.dof_count);
    InverseDynamics(m, s.q, s.qd, s.qdd, tau, fe);
    o.vec(tau);
  } else if (name == "NE") {
    VectorNd tau = VectorNd::Zero(m.dof_count);
    NonlinearEffects(m, s.q, s.qd, tau, fe);
    o.vec(tau);
  } else if (name == "FD") {
    VectorNd qdd = VectorNd::Zero(m.dof_count);
    ForwardDynamics(m, s.q, s.qd, s.tau, qdd, fe);
    o.vec(qdd);
  } else if (name == "CRBA") {
    unsigned u = t.nat();
    MatrixNd H = MatrixNd::Zero(m.dof_count, m.dof_count);
    CompositeRigidBodyAlgorithm(m, s.q, H, u != 0);
    o.mat(H);
  } else if (name == "MINV") {
    unsigned u = t.nat();
    VectorNd qdd = VectorNd::Zero(m.dof_count);
    CalcMInvTimesTau(m, s.q, s.tau, qdd, u != 0);
    o.vec(qdd);
  } else if (name == "UK") {
    UpdateKinematics(m, s.q, s.qd, s.qdd);
  } else if (name == "UKC") {
    unsigned mask = t.nat();
    UpdateKinematicsCustom(m, (mask & 1) ? &s.q : NULL, (mask & 2) ? &s.qd : NULL, (mask & 4) ? &s.qdd : NULL);
  } else if (name == "B2B") {
    unsigned id = t.nat(); Vector3d p = t.v3(); unsigned u = t.nat();
    o.v3(CalcBodyToBaseCoordinates(m, s.q, id, p, u != 0));
  } else if (name == "BASE2B") {
    unsigned id = t.nat(); Vector3d p = t.v3(); unsigned u = t.nat();
    o.v3(CalcBaseToBodyCoordinates(m, s.q, id, p, u != 0));
  } else if (name == "ORI") {
    unsigned id = t.nat(); unsigned u = t.nat();
    o.m3(CalcBodyWorldOrientation(m, s.q, id, u != 0));
  } else if (name == "PJ") {
    unsigned id = t.nat(); Vector3d p = t.v3(); unsigned u = t.nat();
    MatrixNd G = ginit(t, 3, m.qdot_size);
    CalcPointJacobian(m, s.q, id, p, G, u != 0);
    o.mat(G);
  } else if (name == "PJ6") {
    unsigned id = t.nat(); Vector3d p = t.v3(); unsigned u = t.nat();
    MatrixNd G = ginit(t, 6, m.qdot_size);
    CalcPointJacobian6D(m, s.q, id, p, G, u != 0);
    o.mat(G);
  } else if (name == "BSJ") {
    unsigned id = t.nat(); unsigned u = t.nat();
    MatrixNd G = ginit(t, 6, m.qdot_size);
    CalcBodySpatialJacobian(m, s.q, id, G, u != 0);
    o.mat(G);
  } else if (name == "PV") {
    unsigned id = t.nat(); Vector3d p = t.v3(); unsigned u = t.nat();
    o.v3(CalcPointVelocity(m, s.q, s.qd, id, p, u != 0));
  } else if (name == "PV6") {
    unsigned id = t.nat(); Vector3d p = t.v3(); unsigned u = t.nat();
    o.sv(CalcPointVelocity6D(m, s.q, s.qd, id, p, u != 0));
  } else if (name == "PA") {
    unsigned id = t.nat(); Vector3d p = t.v3(); unsigned u = t.nat();
    o.v3(CalcPointAcceleration(m, s.q, s.qd, s.qdd, id, p, u != 0));
  } else if (name == "PA6") {
    unsigned id = t.nat(); Vector3d p = t.v3(); unsigned u = t.nat();
    o.sv(CalcPointAcceleration6D(m, s.q, s.qd, s.qdd, id, p, u != 0));
  } else if (name == "COM") {
    unsigned u = t.nat();
    double mass; Vector3d com, vel, acc, am, dam;
    Utils::CalcCenterOfMass(m, s.q, s.qd, &s.qdd, mass, com, &vel, &acc, &am, &dam, u != 0);
    o.num(mass); o.v3(com); o.v3(vel); o.v3(acc); o.v3(am); o.v3(dam);
  } else if (name == "COM0") {
    // without qddot and without the optional outputs
    unsigned u = t.nat();
    double mass; Vector3d com, vel, am;
    Utils::CalcCenterOfMass(m, s.q, s.qd, NULL, mass, com, &vel, NULL, &am, NULL, u != 0);
    o.num(mass); o.v3(com); o.v3(vel); o.v3(am);
  } else if (name == "COMm") {
    // any subset of the optional outputs: mask bit 0 com velocity, 1 com acceleration,
    // 2 angular momentum, 3 change of angular momentum (qddot is passed iff bit 1 or 3)
    unsigned mask = t.nat(); unsigned u = t.nat();
    double mass; Vector3d com, vel, acc, am, dam;
    bool needA = (mask & 2) || (mask & 8);
    Utils::CalcCenterOfMass(m, s.q, s.qd, needA ? &s.qdd : NULL, mass, com, (mask & 1) ? &vel : NULL,
                            (mask & 2) ? &acc : NULL, (mask & 4) ? &am : NULL, (mask & 8) ? &dam : NULL, u != 0);
    o.num(mass); o.v3(com);
    if (mask & 1) o.v3(vel);
    if (mask & 2) o.v3(acc);
    if (mask & 4) o.v3(am);
    if (mask & 8) o.v3(dam);
  } else if (name == "ZMP") {
    Vector3d n = t.v3(); Vector3d p = t.v3(); unsigned u = t.nat();
    Vector3d zmp;
    Utils::CalcZeroMomentPoint(m, s.q, s.qd, s.qdd, &zmp, n, p, u != 0);
    o.v3(zmp);
  } else if (name == "KE") {
    unsigned u = t.nat();
    o.num(Utils::CalcKineticEnergy(m, s.q, s.qd, u != 0));
  } else if (name == "PE") {
    unsigned u = t.nat();
    o.num(Utils::CalcPotentialEnergy(m, s.q, u != 0));
  } else if (name == "LTL") {
    // H by CRBA, factorised in place, then H x = tau solved with the two triangular solves
    MatrixNd H = MatrixNd::Zero(m.dof_count, m.dof_count);
    CompositeRigidBodyAlgorithm(m, s.q, H, true);
    SparseFactorizeLTL(m, H);
    VectorNd x = s.tau;
    SparseSolveLTx(m, H, x);
    SparseSolveLx(m, H, x);
    o.mat(H); o.vec(x);
  } else if (name == "FDL") {
    unsigned solver = t.nat();
    VectorNd qdd = VectorNd::Zero(m.dof_count);
    Math::LinearSolver ls = solver == 0 ? LinearSolverPartialPivLU : solver == 1 ? LinearSolverColPivHouseholderQR
                          : solver == 2 ? LinearSolverHouseholderQR : LinearSolverLLT;
    ForwardDynamicsLagrangian(m, s.q, s.qd, s.tau, qdd, ls, fe);
    o.vec(qdd);
#ifdef VERIF_WITH_BALANCE
  } else if (balCall(name, t, m, s.q, s.qd, o)) {
#endif
  } else if (enbCall(name, m, s.q, s.qd, s.tau, fe, o)) {   // C12 energy balance: harness/enbops.h
  } else if (iterCall(name, t, m, s.C, s.q, o)) {
  } else if (csCall(name, t, m, s.C, s.q, s.qd, s.qdd, s.tau, fe, o)) {
  } else {
    o.str("bad-call");
  }
  emit(s, name, o.os.str());
}

static VectorNd readVec(Toks &t) {
  unsigned n = t.nat();
  VectorNd v = VectorNd::Zero(n);
  for (unsigned i = 0; i < n; i++) v[i] = t.rat();
  return v;
}

// one interpreter = one State (model, constraint set, files); lines are fed one at a time so that
// several interpreters can be interleaved on one thread or run on several threads
static void process_line(State &s, const std::string &line) {
#ifdef VERIF_WITH_LUA
  if (s.luaOut) {
    if (line == "luaend") { s.luaOut->close(); s.luaOut.reset(); }
    else (*s.luaOut) << line << "\n";
    return;
  }
#endif

    Toks t = tokenize(line);
    if (t.l.empty()) return;
    std::string cmd = t.next();
    if (cmd[0] == '#') return;
    if (cmd == "@model") return;          // executed by the Lean driver only
    if (cmd == "@impl") cmd = t.next();     // executed by this driver only
    try {
      if (cmd == "case") { s.fresh(t.next()); }
      else if (cmd == "gravity") { s.m->gravity = t.v3(); }
      else if (cmd == "add" || cmd == "append") {
        unsigned parent = (cmd == "add") ? t.nat() : s.m->previously_added_body_id;
        SpatialTransform X = t.xt();
        JSpec js = parseJSpec(t);
        Body b = parseBody(t);
        std::string nm = t.next();
        if (nm == "-") nm = "";
        if (!t.ok) { emit(s, cmd, "bad-op"); return; }
        try {
          unsigned id;
          if (js.custom) {
            CustomJoint *cj;
            if (js.kind == "revX") cj = new CustomRevX();
            else if (js.kind == "eulerZYX") cj = new CustomEulerZYX();
            else cj = new CustomCyl();
            s.customs.emplace_back(cj);
            id = s.m->AddBodyCustomJoint(parent, X, cj, b, nm);
          } else if (cmd == "add") {
            id = s.m->AddBody(parent, X, js.joint, b, nm);
          } else {
            id = s.m->AppendBody(X, js.joint, b, nm);
          }
          emit(s, cmd, "ok " + std::to_string(id));
        } catch (Errors::RBDLError &e) {
          emit(s, cmd, "err " + errKind(e.what()));
        }
      }
      else if (cmd == "setmass" || cmd == "setcom" || cmd == "setinertia" || cmd == "setparams" || cmd == "setframe") {
        unsigned id = t.nat();
        try {
          if (cmd == "setmass") s.m->SetBodyMass(id, t.rat());
          else if (cmd == "setcom") s.m->SetBodyCenterOfMass(id, t.v3());
          else if (cmd == "setinertia") s.m->SetBodyInertia(id, t.m3());
          else if (cmd == "setparams") { double ms = t.rat(); Matrix3d I = t.m3(); Vector3d c = t.v3(); s.m->SetBodyInertialParameters(id, ms, I, c); }
          else s.m->SetJointFrame(id, t.xt());
          emit(s, cmd, "ok");
        } catch (Errors::RBDLError &e) {
          emit(s, cmd, "err " + errKind(e.what()));
        }
      }
      else if (cmd == "join" || cmd == "separate" || cmd == "joinsep") {
        Body a = parseBody(t); SpatialTransform X = t.xt(); Body b = parseBody(t);
        try {
          if (cmd == "join") a.Join(X, b);
          else if (cmd == "separate") a.Separate(X, b);
          else { a.Join(X, b); a.Separate(X, b); }
          Out o; o.str("ok"); o.num(a.mMass); o.v3(a.mCenterOfMass); o.m3(a.mInertia);
          emit(s, cmd, o.os.str());
        } catch (Errors::RBDLError &e) {
          emit(s, cmd, "err " + errKind(e.what()));
        }
      }
      else if (cmd == "dump") emit(s, cmd, dumpModel(*s.m));
      else if (cmd == "params") emit(s, cmd, dumpParams(*s.m));
      else if (cmd == "getparent") emit(s, cmd, std::to_string(s.m->GetParentBodyId(t.nat())));
      else if (cmd == "getframe") { Out o; o.xt(s.m->GetJointFrame(t.nat())); emit(s, cmd, o.os.str()); }
      else if (cmd == "getid") emit(s, cmd, std::to_string(s.m->GetBodyId(t.next().c_str())));
      else if (cmd == "q") {
        unsigned n = t.nat();
        s.q = VectorNd::Zero(n);
        for (unsigned i = 0; i < n; i++) {
          std::string e = t.next();
          // x:<rat>  or  a:<c>:<s>:<q>
          std::vector<std::string> parts;
          size_t st = 0, p;
          while ((p = e.find(':', st)) != std::string::npos) { parts.push_back(e.substr(st, p - st)); st = p + 1; }
          parts.push_back(e.substr(st));
          double v = 0.;
          if (parts.size() == 2 && parts[0] == "x") Toks::parseRat(parts[1], v);
          else if (parts.size() == 4 && parts[0] == "a") Toks::parseRat(parts[3], v);
          s.q[i] = v;
        }
      }
      else if (cmd == "qd") s.qd = readVec(t);
      else if (cmd == "qdd") s.qdd = readVec(t);
      else if (cmd == "tau") s.tau = readVec(t);
      else if (cmd == "fext") {
        std::string k = t.next();
        if (k == "none") { s.has_fext = false; s.fext.clear(); }
        else {
          unsigned n = strtoul(k.c_str(), NULL, 10);
          s.fext.clear();
          for (unsigned i = 0; i < n; i++) s.fext.push_back(t.sv());
          s.has_fext = true;
        }
      }
#ifdef VERIF_WITH_LUA
      else if (cmd == "luadesc" || cmd == "ldload" || cmd == "csfull") {   // C19: harness/luaops.h
        if (cmd == "ldload") s.customs.clear();
        std::string o = luaOp(cmd, t, s.ld, s.m, s.C, s.luafiles, s.tag);
        if (!o.empty()) emit(s, cmd, o);
      }
      else if (cmd == "luafile") {
        // luafile <name> ... luaend : the text of a Lua model, written to a private temporary file
        std::string nm = t.next();
        std::string path = "/tmp/verif_lua_" + std::to_string((long) getpid()) + "_" + s.tag + "_" + nm + ".lua";
        s.luaOut.reset(new std::ofstream(path));
        s.luafiles[nm] = path;
      }
      else if (cmd == "luaload") {
        // luaload <name> [<constraint set name>]: replaces the current model (and constraint set)
        std::string nm = t.next();
        std::string csname = t.pos < t.l.size() ? t.next() : "";
        s.m.reset(new Model());
        s.customs.clear();
        s.C.fresh();
        try {
          if (csname.empty()) {
            Addons::LuaModelReadFromFile(s.luafiles[nm].c_str(), s.m.get(), false);
          } else {
            std::vector<std::string> names; names.push_back(csname);
            std::vector<ConstraintSet> sets(1);
            Addons::LuaModelReadFromFileWithConstraints(s.luafiles[nm].c_str(), s.m.get(), sets, names, false);
            s.C.cs.reset(new ConstraintSet(sets[0]));
          }
        } catch (Errors::RBDLError &e) {
          (*s.out) << "# luaload error: " << e.what() << "\n";
        }
      }
      else if (cmd == "luarm") { for (auto &p : s.luafiles) unlink(p.second.c_str()); s.luafiles.clear(); }
      else if (cmd == "csdump") {
        // structure of the current constraint set: type, bodies, rows per constraint
        std::ostringstream o;
        ConstraintSet &cs = *s.C.cs;
        o << "size " << cs.size();
        for (size_t i = 0; i < cs.constraints.size(); i++) {
          Constraint &c = *cs.constraints[i];
          o << " | t " << c.getConstraintType() << " n " << c.getConstraintSize() << " row " << c.getConstraintIndex()
            << " b " << c.getBodyIds()[0] << " " << c.getBodyIds()[1];
        }
        emit(s, cmd, o.str());
      }
#endif
      else if (cmd.rfind("cs_", 0) == 0) {
        std::string out;
        if (!csCommand(cmd, t, *s.m, s.C, out)) emit(s, cmd, "bad-op");
        else if (!out.empty()) emit(s, cmd, out);
      }
      else if (cmd == "alg") { std::string r = algOp(t); size_t sp = r.find(' '); emit(s, "alg." + r.substr(0, sp), r.substr(sp + 1)); }
#ifdef VERIF_WITH_GEO
      else if (cmd == "geo") { std::string r = geoOp(t); size_t sp = r.find(' '); emit(s, "geo." + r.substr(0, sp), r.substr(sp + 1)); }
#endif
      else if (cmd == "poison") poisonModel(*s.m, t.nat());
      else if (cmd == "call") doCall(s, t);
      else emit(s, cmd, "bad-op");
    } catch (Errors::RBDLError &e) {
      emit(s, cmd, std::string("err ") + errKind(e.what()));
    }
}

int run_stream(std::istream &in, std::ostream &out, const std::string &tag) {
  State s;
  s.out = &out; s.in = &in; s.tag = tag;
  s.fresh("none");
  std::string line;
  while (std::getline(in, line)) process_line(s, line);
  return 0;
}

#ifndef VERIF_NO_MAIN
int main() { return run_stream(std::cin, std::cout, "m"); }
#endif
