// C17: iteration probes of the iterative solvers.  The solvers are deterministic, so the state after k
// passes of a solver's loop is what the solver returns when it is called with max_iter = k: the probes
// below call the unchanged library routine with a sequence of iteration caps and print the returned
// flag / configuration for each cap (nothing inside /repo is instrumented).
//   caps probed: 0 1 2 and n-2 n-1 n, where n = smallest cap for which the routine reports success
//   (found by bisection; success is monotone in the cap), n = max_iter if the full run fails.
#pragma once
#include "common.h"
#include "csops.h"
#include <set>
#include <functional>

// run(cap) -> success flag
static void iterCaps(unsigned maxit, const std::function<bool(unsigned)> &run, bool &okFull, unsigned &n,
                     std::vector<unsigned> &caps) {
  okFull = run(maxit);
  n = maxit;
  if (okFull) {
    unsigned lo = 0, hi = maxit;          // invariant: run(hi) succeeds
    while (lo < hi) {
      unsigned mid = lo + (hi - lo) / 2;
      if (run(mid)) hi = mid; else lo = mid + 1;
    }
    n = hi;
  }
  std::set<unsigned> s;
  for (unsigned k = 0; k <= 2; k++) if (k <= maxit) s.insert(k);
  for (unsigned back = 0; back <= 2; back++) if (n >= back) s.insert(n - back);
  caps.assign(s.begin(), s.end());
}

static bool iterCall(const std::string &name, Toks &t, Model &m, CSState &C, VectorNd &q, Out &o) {
  if (name == "IK1T") {
    // step_tol lambda max_iter npts (body point target)*
    double step_tol = t.rat(), lam = t.rat(); unsigned maxit = t.nat(); unsigned np = t.nat();
    std::vector<unsigned int> ids; std::vector<Vector3d> pts, tgts;
    for (unsigned i = 0; i < np; i++) { ids.push_back(t.nat()); pts.push_back(t.v3()); tgts.push_back(t.v3()); }
    VectorNd Q = VectorNd::Zero(m.q_size);
    auto run = [&](unsigned cap) { Q = VectorNd::Zero(m.q_size); return InverseKinematics(m, q, ids, pts, tgts, Q, step_tol, lam, cap); };
    bool okFull; unsigned n; std::vector<unsigned> caps;
    iterCaps(maxit, run, okFull, n, caps);
    o.str(okFull ? "1" : "0"); o.num(n); o.num(caps.size());
    for (unsigned k : caps) { bool ok = run(k); o.num(k); o.str(ok ? "1" : "0"); o.vec(Q); }
  } else if (name == "IK2T") {
    // lambda max_steps step_tol constraint_tol ncons (kind body point target R weight)*
    InverseKinematicsConstraintSet ik;
    ik.lambda = t.rat(); unsigned maxit = t.nat(); ik.step_tol = t.rat(); ik.constraint_tol = t.rat();
    unsigned ncons = t.nat();
    for (unsigned i = 0; i < ncons; i++) {
      std::string kind = t.next(); unsigned body = t.nat(); Vector3d pt = t.v3(); Vector3d tg = t.v3();
      Matrix3d R = t.m3(); double wgt = t.rat();
      if (kind == "p") ik.AddPointConstraint(body, pt, tg, wgt);
      else if (kind == "xy") ik.AddPointConstraintXY(body, pt, tg, wgt);
      else if (kind == "z") ik.AddPointConstraintZ(body, pt, tg, wgt);
      else if (kind == "o") ik.AddOrientationConstraint(body, R, wgt);
      else if (kind == "c") ik.AddPointConstraintCoMXY(body, tg, wgt);
      else ik.AddFullConstraint(body, pt, tg, R, wgt);
    }
    VectorNd Q = VectorNd::Zero(m.q_size);
    auto run = [&](unsigned cap) {
      Q = VectorNd::Zero(m.q_size); ik.max_steps = cap; ik.error_norm = 0.; ik.delta_q_norm = 0.;
      return InverseKinematics(m, q, ik, Q); };
    bool okFull; unsigned n; std::vector<unsigned> caps;
    iterCaps(maxit, run, okFull, n, caps);
    o.str(okFull ? "1" : "0"); o.num(n); o.num(caps.size());
    for (unsigned k : caps) {
      bool ok = run(k);
      o.num(k); o.str(ok ? "1" : "0"); o.num(ik.num_steps); o.num(ik.error_norm); o.num(ik.delta_q_norm); o.vec(Q);
    }
  } else if (name == "CAQT") {
    // tolerance max_iter weights
    unsigned nv = m.qdot_size;
    double tol = t.rat(); unsigned maxit = t.nat();
    VectorNd wts = VectorNd::Zero(nv);
    for (unsigned i = 0; i < nv; i++) wts[i] = t.rat();
    VectorNd Q = VectorNd::Zero(m.q_size);
    auto run = [&](unsigned cap) { Q = VectorNd::Zero(m.q_size); return CalcAssemblyQ(m, q, *C.cs, Q, wts, tol, cap); };
    bool okFull; unsigned n; std::vector<unsigned> caps;
    iterCaps(maxit, run, okFull, n, caps);
    o.str(okFull ? "1" : "0"); o.num(n); o.num(caps.size());
    for (unsigned k : caps) { bool ok = run(k); o.num(k); o.str(ok ? "1" : "0"); o.vec(Q); }
  } else return false;
  return true;
}
