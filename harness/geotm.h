// torque-muscle part of `geo` (C18): Millard2016TorqueMuscle on the built-in data sets
//   geo tm new <dataSet> <gender> <ageGroup> <jointTorque> <height> <mass>
//       -> ok tauIso omegaMax angleAtMaxIso activeWidth
//   geo tm eval <ta> <tw> <activation>     angle = angleAtMaxIso + ta * activeWidth, omega = tw * omegaMax
//       -> angle omega tau aRecovered tA tV tP tD sign tauIso  dA dAngle dOmega  nA nAngle nOmega
//          (d*: TorqueMuscleInfo partial derivatives, n*: central differences of calcJointTorque)
#pragma once
static void geoTm(GeoState &g, Toks &t, Out &o) {
  std::string sub = t.next();
  if (sub == "new") {
    unsigned ds = t.nat(), gen = t.nat(), age = t.nat(), jt = t.nat();
    double h = t.rat(), m = t.rat();
    // optional: sign of the joint angle and sign of the joint torque relative to the documented figures
    double sa = 1.0, st = 1.0;
    if (t.pos + 1 < t.l.size()) { sa = t.rat(); st = t.rat(); }
    SubjectInformation si;
    si.gender = (GenderSet::item) gen;
    si.ageGroup = (AgeGroupSet::item) age;
    si.heightInMeters = h;
    si.massInKg = m;
    g.tm.reset();
    g.tm.reset(new Millard2016TorqueMuscle((DataSet::item) ds, si, (int) jt, 0.0, sa, st, "c18tm"));
    o.str("ok");
    o.num(g.tm->getMaximumActiveIsometricTorque());
    o.num(g.tm->getMaximumConcentricJointAngularVelocity());
    o.num(g.tm->getJointAngleAtMaximumActiveIsometricTorque());
    o.num(g.tm->getActiveTorqueAngleCurveWidth());
  } else if (sub == "eval" && g.tm) {
    double ta = t.rat(), tw = t.rat(), a = t.rat();
    Millard2016TorqueMuscle &M = *g.tm;
    double wmax = M.getMaximumConcentricJointAngularVelocity();
    double th = M.getJointAngleAtMaximumActiveIsometricTorque() + ta * M.getActiveTorqueAngleCurveWidth();
    double w = tw * wmax;
    double tau = M.calcJointTorque(th, w, a);
    TorqueMuscleSummary tms;
    M.calcActivation(th, w, tau, tms);
    TorqueMuscleInfo ti;
    M.calcTorqueMuscleInfo(th, w, a, ti);
    double ha = 1e-3, hth = 1e-5, hw = 1e-5 * wmax;
    double nA = (M.calcJointTorque(th, w, a + ha) - M.calcJointTorque(th, w, a - ha)) / (2 * ha);
    double nTh = (M.calcJointTorque(th + hth, w, a) - M.calcJointTorque(th - hth, w, a)) / (2 * hth);
    double nW = (M.calcJointTorque(th, w + hw, a) - M.calcJointTorque(th, w - hw, a)) / (2 * hw);
    o.num(th); o.num(w); o.num(tau); o.num(tms.activation);
    o.num(tms.fiberActiveTorqueAngleMultiplier); o.num(tms.fiberTorqueAngularVelocityMultiplier);
    o.num(tms.fiberPassiveTorqueAngleMultiplier); o.num(tms.fiberNormalizedDampingTorque);
    o.num(M.getJointTorqueSign()); o.num(M.getMaximumActiveIsometricTorque());
    o.num(ti.DjointTorque_Dactivation); o.num(ti.DjointTorque_DjointAngle); o.num(ti.DjointTorque_DjointAngularVelocity);
    o.num(nA); o.num(nTh); o.num(nW);
  } else o.str("bad-geo");
}
