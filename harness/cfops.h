// `call CF` / `call CI` of the line protocol (C08 / C10): the per-body constraint wrenches / impulses
// reported by ConstraintSet::calcForces / ConstraintSet::calcImpulses after a dynamics / impulse call.
//
//   call CF <resolveAllInRootFrame 0|1> <updateKinematics 0|1> [<certificates 0|1> [<reuse 0|1>]]
//   call CI ...                                                  (the same for calcImpulses)
//
// Printed:  nc, the multipliers the routine reads (CS.force resp. CS.impulse, nc numbers), the number of
// constraint groups, then for every group g (in the order of ConstraintSet::constraints)
//   the number of bodies, and per body:  id, frame E (9, row major) and r (3), wrench (6: moment, force).
// The third token only concerns the Lean side (emit the certificates or the correspondence line only).
// reuse = 0: the three output vectors are fresh (empty) for every group.
// reuse = 1: the vectors handed to the call already hold the result of a call for the same group with
//            the OTHER resolve flag and updateKinematics = false (a caller that logs the wrenches in both
//            coordinate systems with one set of vectors): what is reported may not depend on that.
// Lean counterpart: lean/Rbdl/ConstrForces.lean (model), lean/Rbdl/CfDriver.lean (certificates).
#pragma once
#include "common.h"

static void cfCall(const std::string &name, Toks &t, Model &m, ConstraintSet &cs, VectorNd &q,
                   VectorNd &qd, Out &o) {
  bool resolve = t.nat() != 0, update = t.nat() != 0;
  if (t.pos < t.l.size()) t.nat();                     // certificates on / off: Lean side only
  bool reuse = (t.pos < t.l.size()) ? (t.nat() != 0) : false;
  bool imp = (name == "CI");
  const VectorNd &lam = imp ? cs.impulse : cs.force;
  o.num(lam.size()); o.vec(lam);
  o.num(cs.constraints.size());
  for (unsigned g = 0; g < cs.constraints.size(); g++) {
    std::vector<unsigned int> ids;
    std::vector<SpatialTransform> frames;
    std::vector<SpatialVector> forces;
    if (reuse) {
      if (imp) cs.calcImpulses(g, m, q, qd, ids, frames, forces, !resolve, false);
      else cs.calcForces(g, m, q, qd, ids, frames, forces, !resolve, false);
    }
    if (imp) cs.calcImpulses(g, m, q, qd, ids, frames, forces, resolve, update);
    else cs.calcForces(g, m, q, qd, ids, frames, forces, resolve, update);
    o.num(ids.size());
    for (size_t i = 0; i < ids.size(); i++) {
      o.num(ids[i]);
      if (i < frames.size()) o.xt(frames[i]); else o.xt(SpatialTransform());
      if (i < forces.size()) o.sv(forces[i]); else o.sv(SpatialVector::Zero());
    }
  }
}
