// the protocol driver plus the balance addon (C12: CalculateFootPlacementEstimator)
#define VERIF_WITH_BALANCE 1
#include "driver.cc"
